#!/usr/bin/env python3
"""tlcout.py <tlc.out> <beh.ndjson> <cases.json>: extract the behaviour lines TLC printed
(PrintT of a JSON string) and summarise what the model's monitors flagged."""
import json, sys, collections
src, dst, casesf = sys.argv[1:4]
cases = json.load(open(casesf))['cases']
bad = collections.Counter(); n = 0
with open(dst, 'w') as out:
    for l in open(src, errors='replace'):
        if l.startswith('"{'):
            s = json.loads(l)
            out.write(s + '\n'); n += 1
            j = json.loads(s)
            if j['bad']:
                bad[(cases[j['c'] - 1]['tag'], tuple(sorted(set(j['bad']))))] += 1
print("tlcout: behaviours=%d model-bad classes=%d" % (n, len(bad)))
for (t, b), k in sorted(bad.items())[:60]:
    print("   BAD(model)", t, list(b), k)
