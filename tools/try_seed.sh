#!/bin/bash
# try_seed.sh <seed dir name under /verif/seeded or /tmp/seed-out path> <PID> [tier]: apply, run the check, undo
D=$1; PID=$2; T=${3:-quick}
P=$D/patch.diff; [ -f $D/patch_rebased.diff ] && P=$D/patch_rebased.diff
git -C /repo apply $P || { echo "PATCH DOES NOT APPLY: $P"; exit 3; }
python3 /verif/tools/check.py $PID --tier $T 2>&1 | grep -E 'VIOLATION|pipeline|check |TOOL|KNOWN|DRIFT' | head -6
git -C /repo checkout -- .
