#!/bin/bash
# seedsweep.sh <worker> <nworkers>: run every kept seed (those with index % nworkers == worker) against the check of its
# property, in an ISOLATED copy (/tmp/sweep<w>/verif + a scratch worktree /tmp/sweep<w>/repo), so that /repo and /verif
# stay usable meanwhile.  Output: /tmp/sweep<w>/results.txt, one line per seed.  (development helper)
set -u
W=${1:-0}; N=${2:-1}
S=/tmp/sweep$W
mkdir -p $S
rsync -a --delete --exclude cache --exclude harness/target --exclude .git /verif/ $S/verif/
[ -d $S/repo ] && git -C /repo worktree remove --force $S/repo
git -C /repo worktree add -q --detach $S/repo HEAD
sed -i "s#path = \"/repo\"#path = \"$S/repo\"#" $S/verif/harness/Cargo.toml
cp /repo/Cargo.lock $S/verif/harness/Cargo.lock 2>/dev/null
: > $S/results.txt
k=0
for sd in $(ls /verif/seeded | grep -E "${SEEDS_RE:-.}"); do
  k=$((k+1)); [ $((k % N)) -eq $W ] || continue
  d=/verif/seeded/$sd; pid=${sd%%-*}
  p=$d/patch.diff; [ -f $d/patch_rebased.diff ] && p=$d/patch_rebased.diff
  if ! git -C $S/repo apply $p 2>/dev/null; then echo "$sd NOAPPLY" >> $S/results.txt; continue; fi
  t0=$(date +%s)
  out=$(RXRUST_REPO=$S/repo VERIF_TLC_WORKERS=4 timeout 3000 python3 $S/verif/tools/check.py $pid --tier quick 2>&1); rc=$?
  git -C $S/repo checkout -q -- .
  echo "$sd rc=$rc $(( $(date +%s) - t0 ))s $(echo "$out" | grep -E 'pipeline' | head -1 | cut -c1-150) :: $(echo "$out" | tail -1 | cut -c1-120)" >> $S/results.txt
done
git -C /repo worktree remove --force $S/repo
echo done >> $S/results.txt
