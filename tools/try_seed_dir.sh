#!/bin/bash
# try_seed_dir.sh <dir with patch.diff> <PID> [tier]: apply to /repo, run the check, undo (dev helper)
D=$1; PID=$2; T=${3:-quick}
git -C /repo apply $D/patch.diff || { echo "PATCH DOES NOT APPLY: $D"; exit 3; }
python3 /verif/tools/check.py $PID --tier $T 2>&1 | grep -E 'VIOLATION|pipeline|check |TOOL|KNOWN|DRIFT' | head -5 | cut -c1-260
git -C /repo checkout -- .
