#!/usr/bin/env python3
"""mutsweep.py <worker id> <n workers> <max mutants> [file filter]   (development helper, not a registered check)

Systematic search for blind spots of the conformance binding: small syntactic mutants of /repo/src are
built into an isolated copy of the harness and every suite's TLC behaviours (cache/work/<suite>/beh.ndjson,
made by tools/regen_all.sh) are replayed on the mutant.  A mutant is
  seen     : some suite shows a difference between the specification's prediction and the mutant (stop there),
  killed   : no difference, but the crate's own unit tests fail,
  SURVIVOR : no difference anywhere and the unit tests pass  -> look at it: either the mutant is equivalent / outside
             every listed property, or the specification (or the suites) do not reach that code.
Results: /tmp/mut/results_<worker>.jsonl"""
import os, re, sys, json, subprocess, random, shutil, time, hashlib

W, NW, MAXM = int(sys.argv[1]), int(sys.argv[2]), int(sys.argv[3])
FILT = sys.argv[4] if len(sys.argv) > 4 else ""
ROOT = "/tmp/mut/w%d" % W
REPO, VERIF = ROOT + "/repo", ROOT + "/verif"
SUITES = ["unary", "two", "flat", "subs", "multi", "fin", "subject", "share", "behavior", "group", "conv", "tasks", "cold13", "chain2",
          "time8", "time9", "retire", "twin", "tsubs", "time7", "fuzz"]

def sh(cmd, cwd=None, timeout=None):
    try:
        p = subprocess.run(cmd, cwd=cwd, shell=isinstance(cmd, str), stdout=subprocess.PIPE, stderr=subprocess.STDOUT, text=True, timeout=timeout)
        return p.returncode, p.stdout
    except subprocess.TimeoutExpired:
        return 124, "TIMEOUT"

def setup():
    os.makedirs(ROOT, exist_ok=True)
    if os.path.isdir(REPO): sh("git -C /repo worktree remove --force %s" % REPO)
    sh("git -C /repo worktree add -q --detach %s HEAD" % REPO)
    sh("rsync -a --delete --exclude cache --exclude harness/target --exclude .git /verif/ %s/" % VERIF)
    sh("sed -i 's#path = \"/repo\"#path = \"%s\"#' %s/harness/Cargo.toml" % (REPO, VERIF))
    shutil.copy("/repo/Cargo.lock", VERIF + "/harness/Cargo.lock")
    rc, out = sh("cargo build --offline --bins", cwd=VERIF + "/harness", timeout=1200)
    assert rc == 0, out[-2000:]

def body_lines(path):
    """(line number, text) of the non-test part of a source file"""
    out = []
    for i, l in enumerate(open(path).read().split("\n")):
        if "#[cfg(test)]" in l or "#[cfg(all(test" in l: break
        out.append((i, l))
    return out

def mutants_of(path):
    res = []
    for i, l in body_lines(path):
        s = l.strip()
        if not s or s.startswith("//") or s.startswith("#") or s.startswith("use ") or s.startswith("pub use"): continue
        # statement deletion
        if s.endswith(";") and not re.match(r"^(let |type |pub |fn |impl|use |const |static |return|break|continue)", s) and "=>" not in s and s.count("(") == s.count(")"):
            res.append((i, l, l.replace(s, "/* deleted */"), "del"))
        # negate a condition
        m = re.match(r"^(\s*)(\}\s*else\s+)?if (?!let )(.*) \{\s*$", l)
        if m:
            res.append((i, l, "%s%sif !(%s) {" % (m.group(1), m.group(2) or "", m.group(3)), "neg"))
        # relational / logical swaps
        for a, b in ((" < ", " <= "), (" <= ", " < "), (" > ", " >= "), (" >= ", " > "), (" == ", " != "), (" != ", " == "), (" && ", " || "), (" || ", " && ")):
            if a in l and "=>" not in l and "->" not in l and "<'" not in l and "where" not in l:
                res.append((i, l, l.replace(a, b, 1), "swap" + a.strip()))
        # constants
        for a, b in ((" + 1", " + 2"), (" - 1", " - 0"), ("(0)", "(1)"), (" = 0;", " = 1;"), ("true", "false"), ("false", "true")):
            if a in l and "=>" not in l:
                res.append((i, l, l.replace(a, b, 1), "const"))
        # Option handling
        if ".take()" in l: res.append((i, l, l.replace(".take()", ".as_ref().cloned()", 1), "take"))
        if ".is_none()" in l: res.append((i, l, l.replace(".is_none()", ".is_some()", 1), "isnone"))
        if ".is_some()" in l: res.append((i, l, l.replace(".is_some()", ".is_none()", 1), "issome"))
    return res

def all_mutants():
    files = []
    for d, _, fn in os.walk("/repo/src"):
        for f in fn:
            p = os.path.join(d, f)
            if f.endswith(".rs") and "verif.rs" not in f and "fake_timer" not in f and "timestamp" not in f and FILT in p:
                files.append(p)
    ms = []
    for p in sorted(files):
        for (i, old, new, kind) in mutants_of(p):
            ms.append(dict(file=os.path.relpath(p, "/repo"), line=i + 1, old=old, new=new, kind=kind))
    random.Random(7).shuffle(ms)
    return ms

def run_mutant(m):
    path = os.path.join(REPO, m["file"])
    src = open(path).read()
    lines = src.split("\n")
    assert lines[m["line"] - 1] == m["old"]
    lines[m["line"] - 1] = m["new"]
    open(path, "w").write("\n".join(lines))
    try:
        rc, out = sh("cargo build --offline --bins", cwd=VERIF + "/harness", timeout=900)
        if rc != 0: return dict(status="nocompile")
        for s in SUITES:
            wd = "/verif/cache/work/%s" % s
            if not os.path.exists(wd + "/beh.ndjson"): continue
            rc, out = sh([VERIF + "/harness/target/debug/rxreplay", "--cases", wd + "/cases.json", "--in", wd + "/beh.ndjson", "--out", ROOT + "/sum.json",
                          "--mismatch", ROOT + "/mism.ndjson"], timeout=900)
            if rc != 0: return dict(status="seen", suite=s, how="replayer rc=%d" % rc)
            mm = re.search(r"mismatches=(\d+)", out)
            fd = re.search(r"formdiffs=(\d+)", out)
            if mm and (int(mm.group(1)) > 0 or int(fd.group(1)) > 0): return dict(status="seen", suite=s, mismatches=int(mm.group(1)))
        # the thread suite: outcome sets
        cd = "/verif/cache/work/conc"
        if os.path.exists(cd + "/model.json"):
            rc, out = sh([VERIF + "/harness/target/debug/rxthreads", "--cases", cd + "/cases.json", "--model", cd + "/model.json", "--out", ROOT + "/real.json",
                          "--bound", "2", "--max-runs", "1500"], timeout=1500)
            if rc != 0: return dict(status="seen", suite="conc", how="rxthreads rc=%d" % rc)
            real = json.load(open(ROOT + "/real.json"))["cases"]
            if any(not o["in_model"] for c in real for o in c["outcomes"]): return dict(status="seen", suite="conc")
        rc, out = sh("cargo test --offline --lib", cwd=REPO, timeout=1200)
        ok = re.search(r"test result: ok", out) is not None
        if not ok:
            failed = re.findall(r"^test (\S+) \.\.\. FAILED", out, re.M)
            if failed == ["ops::delay::tests::shared_smoke"]: ok = True      # known flaky
        return dict(status="SURVIVOR" if ok else "killed")
    finally:
        open(path, "w").write(src)

if __name__ == "__main__":
    setup()
    ms = all_mutants()
    mine = [m for k, m in enumerate(ms) if k % NW == W][:MAXM]
    print("worker %d: %d mutants of %d" % (W, len(mine), len(ms)), flush=True)
    with open("/tmp/mut/results_%d.jsonl" % W, "a") as fo:
        for m in mine:
            t0 = time.time()
            r = run_mutant(m)
            r.update(m); r["secs"] = round(time.time() - t0)
            fo.write(json.dumps(r) + "\n"); fo.flush()
            print(r["status"], r.get("suite", ""), m["file"], m["line"], m["kind"], r["secs"], flush=True)
    sh("git -C /repo worktree remove --force %s" % REPO)
