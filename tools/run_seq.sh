#!/bin/bash
# dev helper: run_seq.sh <suite> <tier>  -> gen, TLC, replay
set -e
S=$1; T=${2:-quick}; W=${VERIF_WORK:-/verif/cache/work}/$S
mkdir -p $W; cd $W; rm -f *.tla
cp /verif/spec/*.tla . ; python3 /verif/tools/gen.py $S $T .
N=$(python3 -c "import json;print(len(json.load(open('cases.json'))['cases']))")
sed "s/CaseHi = 1/CaseHi = $N/" /verif/spec/MC_Seq.cfg > MC_Seq.cfg
export JAVA_TOOL_OPTIONS="-Xss1g -XX:+UseParallelGC"
( time timeout 1800 tlc -workers 12 -metadir states -cleanup -noGenerateSpecTE -config MC_Seq.cfg MC_Seq.tla > tlc.out 2>&1 ) 2>&1 | grep real
grep -E 'states generated|Finished|rror|violated' tlc.out | tail -4
(cd /verif/harness && cargo build --offline --bins 2>&1 | grep -E "^error" -A8 || true)
python3 /verif/tools/tlcout.py tlc.out beh.ndjson cases.json
/verif/harness/target/debug/rxreplay --cases cases.json --in beh.ndjson --out summary.json --mismatch mism.ndjson --observed obs.ndjson | tail -1
