#!/usr/bin/env python3
"""Writes /verif/MANIFEST.json from tools/plan.py (claimed properties) and properties.jsonl."""
import json, os, sys, subprocess
V = os.path.dirname(os.path.dirname(os.path.abspath(__file__)))
sys.path.insert(0, os.path.join(V, "tools"))
import plan
props = [json.loads(l) for l in open(os.path.join(V, "properties.jsonl"))]
hook_commits = getattr(plan, "HOOK_COMMITS", [])
checks = []
for p in props:
    pid = p["id"]
    if pid not in plan.PLAN: continue
    note = plan.NOTES.get(pid, {})
    checks.append({
        "property_id": pid,
        "quick_cmd": "python3 tools/check.py %s --tier quick" % pid,
        "thorough_cmd": "python3 tools/check.py %s --tier thorough" % pid,
        "evidence_file": "/verif/evidence/%s.json" % pid,
        "replay_cmd_template": "python3 tools/replay.py {path}",
        "engine": "tla-machine",
        "level_claimed": {"category": "model_checking",
                          "text": note.get("text", plan.DEFAULT_TEXT),
                          "design_ref": note.get("design_ref", "DESIGN.md section 6")},
        "level_note": note.get("note", plan.DEFAULT_NOTE),
        "technique": note.get("technique", "explicit TLA+ specification checked by TLC + conformance replay of TLC behaviours on the real crate + TLC trace validation of observed executions"),
    })
na = [{"property_id": p["id"], "reason": plan.NOT_YET.get(p["id"], "check not built yet; the TLA+ machine does not cover this part of the crate so far (see DESIGN.md section 10)")}
      for p in props if p["id"] not in plan.PLAN]
m = {"version": 1,
     "setup_cmd": "cd /verif/harness && cargo build --offline --bins",
     "hooks": {"guard": "verif_hooks", "enable": "cargo feature `verif_hooks` of rxrust (harness builds /repo with --features verif_hooks where a check needs it)",
               "baseline_off_cmd": "cd /repo && cargo test --workspace --no-fail-fast --offline",
               "source_commits": hook_commits, "add_only": True},
     "engines": [{"name": "tla-machine", "path": "/verif/spec", "serves_properties": [c["property_id"] for c in checks],
                  "kind_free_text": "TLA+ abstract machine of rxRust (pipelines as data) + RxProps monitors + RxRef reference semantics, TLC; bound to the crate by harness/rxreplay (spec->code) and TraceMon (code->spec)"}],
     "checks": checks,
     "notes": "See DESIGN.md. Exit codes of every check: 0 held (possibly KNOWN-FINDING / DRIFT lines), 1 VIOLATION, 2 tool error.",
     "not_applicable": na}
json.dump(m, open(os.path.join(V, "MANIFEST.json"), "w"), indent=1)
print("MANIFEST: %d checks, %d not_applicable" % (len(checks), len(na)))
