#!/usr/bin/env python3
"""replay.py <replay file>: re-execute one recorded behaviour on the real crate and show expected vs observed."""
import json, sys, os, subprocess, tempfile
V = os.path.dirname(os.path.dirname(os.path.abspath(__file__)))
rec = json.load(open(sys.argv[1]))
d = tempfile.mkdtemp(prefix="rxreplay-", dir=os.path.join(V, "cache"))
json.dump({"cases": [dict(prog=rec["prog"], off=rec["off"], cfg=rec["cfg"], forms=rec["form"], cmp="global")]}, open(d + "/cases.json", "w"))
exp = rec.get("expected") or [s["o"] for s in rec["steps"]]
steps = [dict(s=s["s"], o=exp[i] if i < len(exp) else s["o"]) for i, s in enumerate(rec["steps"])]
open(d + "/in.ndjson", "w").write(json.dumps(dict(c=1, bad=[], steps=steps)) + "\n")
subprocess.run(["cargo", "build", "--offline", "--bins", "-q"], cwd=V + "/harness")
subprocess.run([V + "/harness/target/debug/rxreplay", "--cases", d + "/cases.json", "--in", d + "/in.ndjson", "--out", d + "/out.json",
                "--mismatch", d + "/mism.ndjson"])
print(open(d + "/mism.ndjson").read() or "observed = recorded expectation")
