#!/usr/bin/env python3
"""replay.py <replay file>: re-execute one recorded behaviour on the real crate and show expected vs observed.
Sequential records (rxreplay): the stimulus sequence is replayed in the recorded form (and virtual time unit).
Thread records (rxthreads): the recorded schedule (sequence of thread grants) is replayed on real threads."""
import json, sys, os, subprocess, tempfile
V = os.path.dirname(os.path.dirname(os.path.abspath(__file__)))
rec = json.load(open(sys.argv[1]))
d = tempfile.mkdtemp(prefix="rxreplay-", dir=os.path.join(V, "cache"))
subprocess.run(["cargo", "build", "--offline", "--bins", "-q"], cwd=V + "/harness")
if "example" in rec:      # a thread case: {case, outcome, example: {sched, events}}
    json.dump({"cases": [rec["case"]]}, open(d + "/cases.json", "w"))
    sched = ",".join(str(t) for t in rec["example"]["sched"])
    print("recorded outcome:", json.dumps(rec["outcome"]))
    subprocess.run([V + "/harness/target/debug/rxthreads", "--cases", d + "/cases.json", "--case", "1", "--replay", sched, "--out", d + "/out.json"])
    sys.exit(0)
case = dict(prog=rec["prog"], off=rec["off"], cfg=rec["cfg"], forms=rec["form"], cmp="global")
if rec.get("unit_ns"): case["units"] = [rec["unit_ns"]]
json.dump({"cases": [case]}, open(d + "/cases.json", "w"))
exp = rec.get("expected") or [s["o"] for s in rec["steps"]]
steps = [dict(s=s["s"], o=exp[i] if i < len(exp) else s["o"]) for i, s in enumerate(rec["steps"])]
open(d + "/in.ndjson", "w").write(json.dumps(dict(c=1, bad=[], steps=steps)) + "\n")
subprocess.run([V + "/harness/target/debug/rxreplay", "--cases", d + "/cases.json", "--in", d + "/in.ndjson", "--out", d + "/out.json",
                "--mismatch", d + "/mism.ndjson"])
print(open(d + "/mism.ndjson").read() or "observed = recorded expectation")
