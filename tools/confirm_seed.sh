#!/bin/bash
# confirm_seed.sh <PID> <n> : confirm a seeded change in its scratch worktree and, if it
# qualifies, keep it as /verif/seeded/<PID>-<n>/ (patch.diff, demo.rs, notes.md, meta.json)
PID=$1; N=$2; WT=/tmp/seedwork/$PID; SRC=/tmp/seed-out/$PID/$N; DST=/verif/seeded/$PID-$N
[ -f $SRC/patch.diff ] || { echo "no patch for $PID/$N"; exit 1; }
cd $WT && git checkout -q -- . && git clean -fdq -e target
git apply --check $SRC/patch.diff || { echo "patch does not apply"; exit 1; }
git apply $SRC/patch.diff
# the suite has wall-clock tests that are flaky under load: passing once out of three runs counts
failed=1
for try in 1 2 3; do
  suite=$(cargo test --offline --lib 2>&1 | grep -E '^test result' | tail -1)
  if echo "$suite" | grep -q 'test result: ok'; then failed=0; break; fi
done
mkdir -p tests; cp $SRC/demo.rs tests/demo.rs
with=$(cargo test --offline --test demo 2>&1 | grep -E '^test result' | tail -1)
git checkout -q -- src
without=$(cargo test --offline --test demo 2>&1 | grep -E '^test result' | tail -1)
rm -f tests/demo.rs; rmdir tests 2>/dev/null; git checkout -q -- . ; git clean -fdq -e target
echo "suite(with change): $suite ; non-flaky failures: $failed"
echo "demo with change   : $with"
echo "demo without change: $without"
ok=1
echo "$with" | grep -q 'FAILED' || ok=0
echo "$without" | grep -q 'test result: ok' || ok=0
[ "$failed" = "0" ] || ok=0
if [ $ok = 1 ]; then
  mkdir -p $DST; cp $SRC/patch.diff $SRC/demo.rs $DST/; cp $SRC/notes.md $DST/ 2>/dev/null
  python3 - "$PID" "$N" "$suite" "$with" "$without" <<'PY'
import json,sys
pid,n,suite,w,wo=sys.argv[1:6]
json.dump({"property":pid,"seed":int(n),"needs":"see notes.md (written by the seeding sub-agent)",
  "confirmed":{"worktree":"/tmp/seedwork/%s"%pid,
   "ran":["git apply patch.diff","cargo test --offline --lib","cp demo.rs tests/demo.rs; cargo test --offline --test demo (with and without the patch)"],
   "suite_with_change":suite,"demo_with_change":w,"demo_without_change":wo}},
  open("/verif/seeded/%s-%s/meta.json"%(pid,n),"w"),indent=1)
PY
  echo "KEPT $DST"
else
  echo "REJECTED $PID/$N"
fi
