#!/usr/bin/env python3
"""conc_model.py <tlc.out> <model_outcomes.json>: the set of outcomes MC_Conc allows per case
(an outcome = what every subscriber saw, what the calls returned, how the run ended)"""
import json, sys, collections
src, dst = sys.argv[1:3]
per = collections.defaultdict(dict); nsched = collections.Counter(); bad = collections.defaultdict(set)
for l in open(src, errors='replace'):
    if not l.startswith('"{'): continue
    j = json.loads(json.loads(l))
    def key(cr, ns):
        return ("s%d" % ns) if cr[1] == 0 else "t%dc%d" % (cr[0], cr[1])
    names = {}; ns = 0
    for i, cr in enumerate(j['pcre'], start=1):
        if cr[1] == 0: ns += 1
        names[i] = key(cr, ns)
    hs = 0; hnames = {}
    for i, cr in enumerate(j.get('hcre', []), start=1):
        if cr[1] == 0: hs += 1
        hnames[i] = key(cr, hs)
    for i, cr in enumerate(j.get('tcre', []), start=1):
        names[100 + i] = key(cr, 0)
    probes = collections.defaultdict(list)
    gone = set(); late = False
    for e in j['log']:
        if e['p'] == 0:
            if e['t'] == 'U': gone.add(hnames.get(e['v'][1], "?"))      # unsubscribe(handle) returned
            continue
        nm = names.get(e['p'], "p%d" % e['p'])
        if nm in gone: late = True
        probes[nm].append([e['t'], e['v']])
    o = dict(probes=probes, rets=j['rets'], stuck=j['stuck'], overlap=j['overlap'], fault=j['fault'], cnt=j['cnt'], late=late)
    k = json.dumps(o, sort_keys=True)
    per[j['c']][k] = o
    nsched[j['c']] += 1
    for b in j['bad']: bad[j['c']].add(b)
json.dump({str(c): list(v.values()) for c, v in per.items()}, open(dst, 'w'))
print("conc_model: cases=%d schedules=%d outcomes=%d model-bad=%s" % (len(per), sum(nsched.values()), sum(len(v) for v in per.values()),
      {c: sorted(b) for c, b in bad.items()}))
