#!/bin/bash
# dev helper: regenerate cache/work/<suite> (catalogue, TLC behaviours, replay on the current tree) for every sequential suite
T=${1:-quick}
for s in unary two flat subs multi fin subject share behavior group time7 time8 time9 tsubs retire tasks conv twin stagger fuzz cold13 chain2; do
  echo "== $s"; timeout 3600 /verif/tools/run_seq.sh $s $T 2>&1 | tail -2
done
