"""Which suites decide which property, per tier; and the assumptions recorded in the evidence."""

SUITES = {
    "unary":  dict(mc="MC_Seq"),
    "chain2": dict(mc="MC_Seq"),
    "two":    dict(mc="MC_Seq"),
    "flat":   dict(mc="MC_Seq"),
}

PLAN = {
    "C03": dict(quick=["unary", "chain2"], thorough=["unary", "chain2"]),
    "C01": dict(quick=["unary", "chain2", "two"], thorough=["unary", "chain2", "two"]),
    "C04": dict(quick=["two"], thorough=["two"]),
    "C05": dict(quick=["flat"], thorough=["flat"]),
}

ASSUMPTIONS = {
    "*": ["TLC explores the specification only inside the stated bounds (pipeline depth, script length, value alphabet)",
          "the Rust harness builds every pipeline from boxed (type-erased) stages over one universal value type; "
          "BoxOp/BoxObserver/BoxSubscription and the Infallible->Val on_error_map adaptors of the crate are part of every replayed pipeline",
          "closures handed to operators are the fixed total function families of spec/RxVal.tla"],
}

DEFAULT_TEXT = ("Exhaustive (bounded) model checking of the TLA+ abstract machine of rxRust with the property written as a monitor over "
                "observations, plus conformance in both directions: every behaviour TLC generates is replayed on the real crate (local and "
                "thread-safe form) and compared step by step, and every execution of the real crate that differs or that the model flags is "
                "judged by TLC again with the same monitors on the observed trace.")
DEFAULT_NOTE = ("Trusted: TLC, the hand-written specification's reading of the property, the Rust harness (probe, builder). Bounded: pipeline depth, "
                "script length and value alphabet as stated in the evidence; nothing is claimed beyond them.")
NOTES = {}
NOT_YET = {}
HOOK_COMMITS = ["758cb06", "604c708"]

SUITES.update({k: dict(mc="MC_Seq") for k in ("subs", "multi", "fin", "cold13", "subject", "share", "behavior", "group")})
PLAN.update({
    "C01": dict(quick=["unary", "chain2", "two", "flat", "subs", "group"], thorough=["unary", "chain2", "two", "flat", "subs", "group", "subject", "share", "behavior"]),
    "C02": dict(quick=["subs", "multi", "fin"], thorough=["subs", "multi", "fin", "subject", "share", "behavior"]),
    "C17": dict(quick=["subs", "multi"], thorough=["subs", "multi"]),
    "C15": dict(quick=["fin"], thorough=["fin"]),
})

PLAN.update({
    "C06": dict(quick=["subject"], thorough=["subject"]),
    "C11": dict(quick=["share"], thorough=["share"]),
    "C12": dict(quick=["behavior"], thorough=["behavior"]),
    "C13": dict(quick=["cold13"], thorough=["cold13"]),
    "C20": dict(quick=["group"], thorough=["group"]),
})

SUITES["time7"] = dict(mc="MC_Seq")

PLAN["C07"] = dict(quick=["time7"], thorough=["time7"])

SUITES["time8"] = dict(mc="MC_Seq")
PLAN["C08"] = dict(quick=["time8"], thorough=["time8"])

SUITES["time9"] = dict(mc="MC_Seq")
PLAN["C09"] = dict(quick=["time9"], thorough=["time9"])

SUITES["tsubs"] = dict(mc="MC_Seq")
SUITES["retire"] = dict(mc="MC_Seq")
PLAN["C02"] = dict(quick=["subs", "multi", "fin", "tsubs"], thorough=["subs", "multi", "fin", "tsubs", "subject", "share", "behavior"])
PLAN["C17"] = dict(quick=["subs", "multi", "tsubs"], thorough=["subs", "multi", "tsubs"])
PLAN["C16"] = dict(quick=["retire"], thorough=["retire"])

SUITES["tasks"] = dict(mc="MC_Seq")
PLAN["C19"] = dict(quick=["tasks"], thorough=["tasks"])

SUITES["conv"] = dict(mc="MC_Seq")
PLAN["C14"] = dict(quick=["conv"], thorough=["conv"])

PLAN["C18"] = dict(quick=["two", "flat", "subs", "fin", "subject", "share", "time7", "tsubs"],
                   thorough=["unary", "chain2", "two", "flat", "subs", "fin", "subject", "share", "group", "time7", "time9", "tsubs", "retire"])

SUITES["conc"] = dict(mc="MC_Conc")
PLAN["C10"] = dict(quick=["conc"], thorough=["conc"])
for _p in ("C02", "C06", "C12", "C14", "C15"):
    PLAN[_p]["quick"] = PLAN[_p]["quick"] + ["conc"]
    PLAN[_p]["thorough"] = PLAN[_p]["thorough"] + ["conc"]

SUITES["twin"] = dict(mc="MC_Seq")
PLAN["C13"] = dict(quick=["cold13", "twin"], thorough=["cold13", "twin"])

PLAN["C19"]["quick"] = PLAN["C19"]["quick"] + ["conc"]
PLAN["C19"]["thorough"] = PLAN["C19"]["thorough"] + ["conc"]

SUITES["fuzz"] = dict(mc="MC_Seq")
for _p in ("C01", "C03", "C04", "C05", "C18"):
    PLAN[_p]["quick"] = PLAN[_p]["quick"] + ["fuzz"]
    PLAN[_p]["thorough"] = PLAN[_p]["thorough"] + ["fuzz"]
for _p in ("C02", "C17"):
    PLAN[_p]["thorough"] = PLAN[_p]["thorough"] + ["fuzz"]
# keep the quick tier of the widest checks affordable when nothing is cached
PLAN["C01"]["quick"] = ["unary", "two", "flat", "subs", "group", "fuzz"]
PLAN["C18"]["quick"] = ["two", "flat", "subs", "tsubs", "fuzz"]

SUITES["fuzz"]["exhaustive"] = False

PLAN["C05"]["quick"] = PLAN["C05"]["quick"] + ["conc"]
PLAN["C05"]["thorough"] = PLAN["C05"]["thorough"] + ["conc"]

PLAN["C11"]["quick"] = PLAN["C11"]["quick"] + ["conc"]
PLAN["C11"]["thorough"] = PLAN["C11"]["thorough"] + ["conc"]
# the cheap suites are part of the quick both-forms comparison as well
PLAN["C18"]["quick"] = ["two", "flat", "subs", "tsubs", "fuzz", "fin", "cold13", "share", "group", "conv"]

PLAN["C17"]["quick"] = PLAN["C17"]["quick"] + ["conc"]
PLAN["C17"]["thorough"] = PLAN["C17"]["thorough"] + ["conc"]

PLAN["C07"]["quick"] = PLAN["C07"]["quick"] + ["conc"]
PLAN["C07"]["thorough"] = PLAN["C07"]["thorough"] + ["conc"]

SUITES["stagger"] = dict(mc="MC_Seq")
PLAN["C13"]["quick"] = PLAN["C13"]["quick"] + ["stagger"]
PLAN["C13"]["thorough"] = PLAN["C13"]["thorough"] + ["stagger"]

PLAN["C04"]["quick"] = PLAN["C04"]["quick"] + ["conc"]
PLAN["C04"]["thorough"] = PLAN["C04"]["thorough"] + ["conc"]

PLAN["C20"]["quick"] = PLAN["C20"]["quick"] + ["conc"]
PLAN["C20"]["thorough"] = PLAN["C20"]["thorough"] + ["conc"]

PLAN["C05"]["quick"] = PLAN["C05"]["quick"] + ["retire"]
PLAN["C05"]["thorough"] = PLAN["C05"]["thorough"] + ["retire"]
