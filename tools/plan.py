"""Which suites decide which property, per tier; and the assumptions recorded in the evidence."""

SUITES = {
    "unary":  dict(mc="MC_Seq"),
    "chain2": dict(mc="MC_Seq"),
}

PLAN = {
    "C03": dict(quick=["unary", "chain2"], thorough=["unary", "chain2"]),
    "C01": dict(quick=["unary", "chain2"], thorough=["unary", "chain2"]),
}

ASSUMPTIONS = {
    "*": ["TLC explores the specification only inside the stated bounds (pipeline depth, script length, value alphabet)",
          "the Rust harness builds every pipeline from boxed (type-erased) stages over one universal value type; "
          "BoxOp/BoxObserver/BoxSubscription and the Infallible->Val on_error_map adaptors of the crate are part of every replayed pipeline",
          "closures handed to operators are the fixed total function families of spec/RxVal.tla"],
}
