#!/usr/bin/env python3
"""selftest.py: demonstrates that the monitors are bound to what is observed.
A correct observed trace of the miniature catalogue (spec/Gen.tla: subject -> take(2) -> map(+1)) is
accepted by TraceMon; the same trace with ONE recorded field corrupted is rejected, with the right property."""
import json, os, subprocess, sys, shutil, tempfile
V = os.path.dirname(os.path.dirname(os.path.abspath(__file__)))
def step(k, a=0, t="", v=["u"], log=(), ret=["u"]):
    return {"s": {"k": k, "a": a, "b": 0, "t": t, "v": v},
            "o": {"log": [{"p": 1, "t": x[0], "v": x[1], "at": 0} for x in log], "ret": ret, "fault": "", "cnt": [0] * 8, "live": 0, "tm": []}}
good = [step("sub", 3), step("emit", 1, "N", ["i", 0], [("N", ["i", 1])]), step("emit", 1, "N", ["i", 1], [("N", ["i", 2]), ("C", ["u"])]),
        step("emit", 1, "N", ["i", 0])]
def variant(f):
    s = json.loads(json.dumps(good)); f(s); return s
cases = {
    "unchanged": (good, []),
    "one value corrupted": (variant(lambda s: s[1]["o"]["log"][0].__setitem__("v", ["i", 7])), ["C03"]),
    "completion dropped": (variant(lambda s: s[2]["o"]["log"].pop()), ["C03"]),
    "item after the terminal": (variant(lambda s: s[3]["o"]["log"].append({"p": 1, "t": "N", "v": ["i", 1], "at": 0})), ["C01", "C03"]),
    "second terminal": (variant(lambda s: s[3]["o"]["log"].append({"p": 1, "t": "C", "v": ["u"], "at": 0})), ["C01", "C03"]),
}
d = tempfile.mkdtemp(prefix="selftest-", dir=os.path.join(V, "cache"))
for f in os.listdir(os.path.join(V, "spec")):
    if f.endswith(".tla"): shutil.copy(os.path.join(V, "spec", f), d)
names = list(cases)
with open(os.path.join(d, "t.ndjson"), "w") as fo:
    for n in names: fo.write(json.dumps(dict(c=1, form="local", steps=cases[n][0], xf=0)) + "\n")
open(os.path.join(d, "t.cfg"), "w").write("SPECIFICATION Spec\nCONSTANT KF = {}\nPOSTCONDITION AllJudged\nCHECK_DEADLOCK FALSE\n")
out = subprocess.run(["tlc", "-workers", "1", "-config", "t.cfg", "TraceMon.tla"], cwd=d, env=dict(os.environ, TRACE=os.path.join(d, "t.ndjson")),
                     stdout=subprocess.PIPE, stderr=subprocess.STDOUT, text=True).stdout
got = {}
for l in out.splitlines():
    if l.startswith('"{'):
        j = json.loads(json.loads(l)); got[names[j["i"] - 1]] = sorted(set(j["bad"]))
ok = True
for n in names:
    exp = cases[n][1]
    good_ = got.get(n) == exp
    ok &= good_
    print("%-28s monitors false: %-16s expected %-16s %s" % (n, got.get(n), exp, "ok" if good_ else "MISMATCH"))
shutil.rmtree(d, ignore_errors=True)
sys.exit(0 if ok else 1)
