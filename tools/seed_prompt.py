#!/usr/bin/env python3
"""Print the prompt handed to a mutation-seeding sub-agent for one property.
The agent gets the property text and a scratch worktree, nothing from /verif."""
import json, sys
pid = sys.argv[1]
wt = sys.argv[2] if len(sys.argv) > 2 else f"/tmp/seedwork/{pid}"
out = sys.argv[3] if len(sys.argv) > 3 else f"/tmp/seed-out/{pid}"
first = int(sys.argv[4]) if len(sys.argv) > 4 else 1      # numbering of the changes (round 2 uses 3 and 4)
second = first + 1
focus = sys.argv[5] if len(sys.argv) > 5 else ""
p = next(json.loads(l) for l in open('/verif/properties.jsonl') if json.loads(l)['id'] == pid)
print(f"""You are helping to evaluate a verification tool for the Rust library rxRust (a Reactive Extensions library). Your job is to play the role of a developer who introduces a subtle regression.

You have your own scratch git worktree of the library at {wt} (a detached checkout of the pinned commit; it builds offline with `cargo build --offline`, and its test-suite runs with `cd {wt} && cargo test --offline --lib` -- about 255 tests, a minute or so; the test `ops::delay::tests::shared_smoke` is known-flaky and may be ignored). Work ONLY inside {wt} and write your results to {out}. Do not read or touch /verif or /repo. There is no network.

Here is a semantic property of the library that users rely on:

  Title: {p['title']}
  Statement: {p['statement']}
  It is meant to hold over: {p['quantifier']['text']}

Produce TWO independent, different source changes to the library (call them {first} and {second}; different operators / code sites / failure mechanisms), each of which:
  (a) BREAKS this property (for some input, history or schedule the statement becomes false),
  (b) still COMPILES, and the library's existing test-suite (`cargo test --offline --lib`, plus doc tests if you can: `cargo test --offline --doc`) still PASSES with the change applied,
  (c) is REALISTIC: the kind of slip a maintainer could make in a refactoring or an optimisation (a moved line, a dropped take()/check, a wrong comparison, a lock released too early, state hoisted into the wrong place, ...), small (a few lines), not an obviously sabotaging change, no new dependencies, no cfg tricks, no change to tests,
  (d) needs SOMETHING SPECIFIC to manifest -- a particular interleaving of events of several inputs, an event after a terminal, a particular multi-step sequence of operations, an unusual parameter or input, a particular scheduler order or thread interleaving, or two cooperating sites that each look fine alone -- rather than something that ordinary use of the operator would expose at once.

{focus}

For each change i in {{{first},{second}}} write into {out}/i/ :
  - patch.diff : the change as produced by `git -C {wt} diff` (must apply with `git apply` to the pinned commit; only files under src/),
  - a demonstration: a self-contained Rust test file demo.rs that can be dropped into the crate as `tests/demo.rs` (integration test using `use rxrust::prelude::*;`; if it needs crate-private items put it somewhere else and say so) which FAILS with the change applied and PASSES on the unchanged code; keep it deterministic (no sleeps/real threads unless the point is a thread interleaving, in which case make the interleaving deterministic or highly reliable),
  - notes.md : which part of the statement is broken, what exactly is needed for it to manifest, and the exact commands you ran with their outcome (test-suite with the change: pass; demo with the change: fail; demo without the change: pass).

Procedure: read the relevant source in {wt}/src, choose a change, apply it, run the test-suite, write and run the demo with and without the change (to switch between changed and unchanged code save your change with `git -C {wt} diff > /tmp/seed-out/{pid}/wip.diff`, restore with `git -C {wt} checkout -- src`, re-apply with `git -C {wt} apply /tmp/seed-out/{pid}/wip.diff`; do NOT use `git stash`: the stash is shared with other people's worktrees of the same repository), save the artefacts, then restore the worktree to the pinned state (`git -C {wt} checkout -- . && git -C {wt} clean -fdq -e target`) before starting the second change. Leave the worktree clean at the end (the target/ directory may stay). If after real effort you can only find one qualifying change, deliver one and say so. Your final message should summarise, per change: files touched, one-sentence description, what is needed to manifest, and confirmation of (b) and the demo outcomes.""")
