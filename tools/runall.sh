#!/bin/bash
# runall.sh [tier]: run every registered check, one line each
T=${1:-quick}
cd "$(dirname "$0")/.."
for id in $(python3 -c "import json;print(' '.join(c['property_id'] for c in json.load(open('MANIFEST.json'))['checks']))"); do
  s=$(date +%s)
  out=$(python3 tools/check.py $id --tier $T 2>&1); rc=$?
  echo "$id rc=$rc $(( $(date +%s) - s ))s :: $(echo "$out" | grep -E '^(VIOLATION|KNOWN-FINDING|TOOL-ERROR|DRIFT)' | cut -c1-110 | head -3 | tr '\n' '|') $(echo "$out" | tail -1 | cut -c1-160)"
done
