#!/usr/bin/env python3
"""check.py <PID> [--tier quick|thorough]

Decides one property of /verif/properties.jsonl on /repo's CURRENT working tree:
  1. rebuilds the Rust harness against /repo (cargo, offline),
  2. for every suite the property needs: generates the case catalogue, lets TLC
     explore the TLA+ machine (spec/MC_*.tla) and print every bounded behaviour
     with the observations the specification predicts and the verdict of the
     property monitors on the model,
  3. replays every behaviour on the real crate (harness/rxreplay, both forms),
  4. hands every execution of the real crate that either differs from the
     prediction or was flagged by a monitor in the model to TLC again
     (spec/TraceMon.tla: the monitors of RxProps on the OBSERVED trace),
  5. verdict: VIOLATION only if a monitor of this property is false on an observed
     execution of the real crate and the deviations recorded in known_findings.jsonl
     do not explain it; KNOWN-FINDING if they do; DRIFT (exit 0) if the crate differs
     from the specification without breaking the property.
Exit codes: 0 held, 1 VIOLATION (line `VIOLATION property=<id> replay=<path>`), 2 tool error."""
import sys, os, json, time, hashlib, subprocess, shutil, glob, re, collections

VERIF = os.path.dirname(os.path.dirname(os.path.abspath(__file__)))
REPO = os.environ.get("RXRUST_REPO", "/repo")
HARNESS = os.path.join(VERIF, "harness")
SPEC = os.path.join(VERIF, "spec")
CACHE = os.path.join(VERIF, "cache")
EVID = os.path.join(VERIF, "evidence")
WORKERS = os.environ.get("VERIF_TLC_WORKERS", "10")
JAVA_OPTS = "-Xss1g -XX:+UseParallelGC"

sys.path.insert(0, os.path.join(VERIF, "tools"))
import plan  # noqa: E402

def log(*a):
    print(*a, flush=True)

def tool_error(msg):
    log("TOOL-ERROR:", msg)
    sys.exit(2)

def sh(cmd, cwd=None, env=None, timeout=None, out=None):
    e = dict(os.environ)
    if env: e.update(env)
    t0 = time.time()
    if out:
        with open(out, "w") as fo:
            p = subprocess.run(cmd, cwd=cwd, env=e, stdout=fo, stderr=subprocess.STDOUT, timeout=timeout, text=True)
        return p.returncode, "", time.time() - t0
    p = subprocess.run(cmd, cwd=cwd, env=e, stdout=subprocess.PIPE, stderr=subprocess.STDOUT, timeout=timeout, text=True)
    return p.returncode, p.stdout, time.time() - t0

def tree_hash(paths):
    h = hashlib.sha256()
    for root in paths:
        if os.path.isfile(root):
            files = [root]
        else:
            files = []
            for d, dn, fn in os.walk(root):
                dn[:] = [x for x in dn if x not in ("target", ".git", "gen")]
                files += [os.path.join(d, f) for f in fn]
        for f in sorted(files):
            h.update(f.encode()); h.update(open(f, "rb").read())
    return h.hexdigest()[:16]

def build_harness():
    t0 = time.time()
    lock = os.path.join(HARNESS, "Cargo.lock")
    if not os.path.exists(lock):
        shutil.copy(os.path.join(REPO, "Cargo.lock"), lock)
    rc, out, _ = sh(["cargo", "build", "--offline", "--bins"], cwd=HARNESS,
                    env={"CARGO_NET_OFFLINE": "true"}, timeout=1500)
    if rc != 0:
        # a tree that does not compile is not a verdict about the property
        tool_error("harness build failed against %s:\n%s" % (REPO, out[-3000:]))
    return time.time() - t0

def known_findings():
    kf = []
    p = os.path.join(VERIF, "known_findings.jsonl")
    if os.path.exists(p):
        for l in open(p):
            l = l.strip()
            if l and not l.startswith("#"):
                j = json.loads(l)
                if "fixed" not in j:
                    kf.append(j)
    return kf

def tla_set(ids):
    return "{" + ", ".join('"%s"' % i for i in ids) + "}"

def run_tlc(workdir, module, cfg_text, outname, env=None, timeout=3000, workers=WORKERS):
    cfg = os.path.join(workdir, module + "_run.cfg")
    open(cfg, "w").write(cfg_text)
    e = {"JAVA_TOOL_OPTIONS": JAVA_OPTS}
    if env: e.update(env)
    states = os.path.join(workdir, "states_" + outname)
    rc, _, wall = sh(["tlc", "-workers", str(workers), "-metadir", states, "-cleanup", "-noGenerateSpecTE",
                      "-config", cfg, module + ".tla"], cwd=workdir, env=e, timeout=timeout,
                     out=os.path.join(workdir, outname))
    shutil.rmtree(states, ignore_errors=True)
    txt = open(os.path.join(workdir, outname), errors="replace").read()
    if "Model checking completed. No error has been found." not in txt:
        tail = "\n".join(l for l in txt.splitlines() if not l.startswith('"'))[-3000:]
        tool_error("TLC did not complete cleanly in %s (%s):\n%s" % (workdir, outname, tail))
    m = re.search(r"(\d+) states generated, (\d+) distinct states found", txt)
    d = re.search(r"depth of the complete state graph search is (\d+)", txt)
    return dict(states_generated=int(m.group(1)), distinct=int(m.group(2)),
                depth=int(d.group(1)) if d else 0, wall_s=round(wall, 1))

def trace_mon(workdir, recs_file, kf_ids, outname):
    """TLC evaluates the monitors of RxProps on observed traces; returns list of bad-lists, one per record"""
    cfg = "SPECIFICATION Spec\nCONSTANT KF = %s\nPOSTCONDITION AllJudged\nCHECK_DEADLOCK FALSE\n" % tla_set(kf_ids)
    run_tlc(workdir, "TraceMon", cfg, outname, env={"TRACE": recs_file}, workers=1, timeout=1200)
    res = {}
    for l in open(os.path.join(workdir, outname), errors="replace"):
        if l.startswith('"{'):
            j = json.loads(json.loads(l))
            res[j["i"]] = sorted(set(j["bad"]))
    return res

def run_suite(suite, tier, seed, key):
    """returns the result record of one suite (cached by key)"""
    wd = os.path.join(CACHE, key, "%s_%s" % (suite, tier))
    resf = os.path.join(wd, "result.json")
    if os.path.exists(resf):
        r = json.load(open(resf)); r["cached"] = True
        return r
    shutil.rmtree(wd, ignore_errors=True)
    os.makedirs(wd)
    t0 = time.time()
    for f in glob.glob(os.path.join(SPEC, "*.tla")):
        shutil.copy(f, wd)
    rc, out, _ = sh([sys.executable, os.path.join(VERIF, "tools", "gen.py"), suite, tier, wd],
                    env={"VERIF_SEED": str(seed)})
    if rc != 0: tool_error("gen.py failed: " + out)
    cases = json.load(open(os.path.join(wd, "cases.json")))["cases"]
    mc = plan.SUITES[suite]["mc"]
    cfg = open(os.path.join(SPEC, mc + ".cfg")).read().replace("CaseHi = 1", "CaseHi = %d" % len(cases))
    tlc = run_tlc(wd, mc, cfg, "tlc.out")
    # behaviours printed by TLC
    nbeh = 0; model_bad = collections.Counter()
    with open(os.path.join(wd, "beh.ndjson"), "w") as fo:
        for l in open(os.path.join(wd, "tlc.out"), errors="replace"):
            if l.startswith('"{'):
                s = json.loads(l); fo.write(s + "\n"); nbeh += 1
                # cheap scan, avoid a full parse of every line
                if '"bad":[]' not in s:
                    j = json.loads(s)
                    for b in set(j["bad"]): model_bad[b] += 1
    if nbeh == 0: tool_error("TLC printed no behaviour for suite " + suite)
    # replay on the real crate
    rc, out, wall_rep = sh([os.path.join(HARNESS, "target", "debug", "rxreplay"), "--cases", "cases.json",
                            "--in", "beh.ndjson", "--out", "replay.json", "--mismatch", "mism.ndjson",
                            "--observed", "obs.ndjson"], cwd=wd, timeout=3000)
    if rc != 0: tool_error("rxreplay failed (%d): %s" % (rc, out[-2000:]))
    rep = json.load(open(os.path.join(wd, "replay.json")))
    # candidates for judgement on the OBSERVED trace
    cand = []
    for kind, fn in (("mismatch", "mism.ndjson"), ("model-bad-confirmed", "obs.ndjson")):
        per_case = collections.Counter()
        for l in open(os.path.join(wd, fn)):
            j = json.loads(l)
            per_case[(j["c"], j["form"])] += 1
            cap = 420 if kind == "mismatch" else 400     # observed == predicted and the model flags it: judge (nearly) all of them
            if per_case[(j["c"], j["form"])] > cap or len(cand) >= 12000: continue
            j["kind"] = kind
            cand.append(j)
    judged = []
    if cand:
        with open(os.path.join(wd, "cand.ndjson"), "w") as fo:
            for j in cand:
                xf = 0
                exp = j.get("expected") or []
                for i, st in enumerate(j["steps"]):
                    if st["o"]["fault"] and (i >= len(exp) or not exp[i]["fault"]):
                        xf = i + 1; break
                xfin = 0
                for i, st in enumerate(j["steps"]):
                    if i < len(exp) and st["o"]["cnt"] and exp[i]["cnt"] and st["o"]["cnt"][3] != exp[i]["cnt"][3]:
                        xfin = i + 1; break
                rec = dict(c=j["c"], form=j["form"], steps=j["steps"], xf=xf, xfin=xfin)
                if j.get("formdiff"): rec["other"] = j["other"]
                fo.write(json.dumps(rec) + "\n")
        strict = trace_mon(wd, os.path.join(wd, "cand.ndjson"), [], "mon_strict.out")
        kfs = known_findings()
        lenient = {}
        if kfs and any(strict.values()):
            for k in kfs:
                lenient[k["id"]] = trace_mon(wd, os.path.join(wd, "cand.ndjson"), [k["id"]], "mon_%s.out" % k["id"])
        for i, j in enumerate(cand, start=1):
            bad = strict.get(i, [])
            explained = {}
            for p in bad:
                explained[p] = [fid for fid, res in lenient.items() if p not in res.get(i, [])]
            judged.append(dict(c=j["c"], tag=cases[j["c"] - 1]["tag"], form=j["form"], kind=j["kind"], bad=bad,
                               explained=explained, first_diff=j.get("first_diff"),
                               rec=dict(c=j["c"], form=j["form"], prog=cases[j["c"] - 1]["prog"], off=cases[j["c"] - 1]["off"],
                                        cfg=cases[j["c"] - 1]["cfg"], steps=j["steps"], expected=j.get("expected"), unit_ns=j.get("unit_ns"),
                                        tag=cases[j["c"] - 1]["tag"])))
    r = dict(suite=suite, tier=tier, seed=seed, cases=len(cases), tlc=tlc, behaviours=nbeh,
             model_bad=dict(model_bad), replay={k: rep[k] for k in ("behaviours", "steps", "mismatches", "with_fault", "per_form")},
             sample=rep.get("sample"), judged=judged, wall_s=round(time.time() - t0, 1), cached=False,
             tags=sorted(set(c["tag"] for c in cases))[:400])
    json.dump(r, open(resf, "w"))
    for junk in ("tlc.out", "beh.ndjson"):
        try: os.remove(os.path.join(wd, junk))
        except OSError: pass
    return r

def run_conc_suite(suite, tier, seed, key):
    """thread-level suite: MC_Conc explores the model's interleavings, rxthreads explores the real ones;
    every distinct real outcome is compared with the model's outcome set and judged by TraceConc"""
    wd = os.path.join(CACHE, key, "%s_%s" % (suite, tier))
    resf = os.path.join(wd, "result.json")
    if os.path.exists(resf):
        r = json.load(open(resf)); r["cached"] = True
        return r
    shutil.rmtree(wd, ignore_errors=True)
    os.makedirs(wd)
    t0 = time.time()
    for f in glob.glob(os.path.join(SPEC, "*.tla")):
        shutil.copy(f, wd)
    rc, out, _ = sh([sys.executable, os.path.join(VERIF, "tools", "gen.py"), suite, tier, wd], env={"VERIF_SEED": str(seed)})
    if rc != 0: tool_error("gen.py failed: " + out)
    cases = json.load(open(os.path.join(wd, "cases.json")))["cases"]
    bound = 2 if tier == "quick" else 3
    cfg = open(os.path.join(SPEC, "MC_Conc.cfg")).read().replace("CaseHi = 1", "CaseHi = %d" % len(cases)) \
        .replace("PreemptBound = 2", "PreemptBound = %d" % bound)
    tlc = run_tlc(wd, "MC_Conc", cfg, "tlc.out")
    rc, out, _ = sh([sys.executable, os.path.join(VERIF, "tools", "conc_model.py"), "tlc.out", "model.json"], cwd=wd)
    if rc != 0: tool_error("conc_model.py failed: " + out)
    model_summary = out.strip()
    os.remove(os.path.join(wd, "tlc.out"))
    rc, out, wall = sh([os.path.join(HARNESS, "target", "debug", "rxthreads"), "--cases", "cases.json", "--model", "model.json",
                        "--out", "real.json", "--bound", str(bound), "--max-runs", "3000" if tier == "quick" else "40000"],
                       cwd=wd, timeout=5000)
    if rc != 0: tool_error("rxthreads failed (%d): %s" % (rc, out[-2000:]))
    real = json.load(open(os.path.join(wd, "real.json")))["cases"]
    cand = []
    for c in real:
        for o in c["outcomes"]:
            cand.append(dict(c=c["c"], tag=c["tag"], n=o["n"], in_model=o["in_model"], outcome=o["outcome"], example=o["example"]))
    with open(os.path.join(wd, "cand.ndjson"), "w") as fo:
        for j in cand:
            fo.write(json.dumps(dict(c=j["c"], **j["outcome"])) + "\n")
    def judge(kf_ids, outname):
        cfgt = "SPECIFICATION Spec\nCONSTANT KF = %s\nPOSTCONDITION AllJudged\nCHECK_DEADLOCK FALSE\n" % tla_set(kf_ids)
        run_tlc(wd, "TraceConc", cfgt, outname, env={"TRACE": os.path.join(wd, "cand.ndjson")}, workers=1, timeout=1200)
        res = {}
        for l in open(os.path.join(wd, outname), errors="replace"):
            if l.startswith('"{'):
                jj = json.loads(json.loads(l)); res[jj["i"]] = sorted(set(jj["bad"]))
        return res
    strict = judge([], "mon_strict.out")
    lenient = {}
    if any(strict.values()):
        for k in known_findings():
            lenient[k["id"]] = judge([k["id"]], "mon_%s.out" % k["id"])
    judged = []
    for i, j in enumerate(cand, start=1):
        bad = strict.get(i, [])
        if not bad and j["in_model"]: continue
        explained = {p: [fid for fid, res in lenient.items() if p not in res.get(i, [])] for p in bad}
        judged.append(dict(c=j["c"], tag=j["tag"], form="threads", kind="model-bad-confirmed" if j["in_model"] else "mismatch",
                           bad=bad, explained=explained, first_diff=None,
                           rec=dict(case=cases[j["c"] - 1], outcome=j["outcome"], example=j["example"], runs_with_this_outcome=j["n"])))
    runs = sum(c["runs"] for c in real)
    r = dict(suite=suite, tier=tier, seed=seed, cases=len(cases), tlc=tlc, behaviours=runs, model_bad={},
             replay=dict(behaviours=runs, steps=0, mismatches=sum(1 for j in cand if not j["in_model"]), with_fault=0, per_form={"threads": runs},
                         formdiffs=0, distinct_outcomes=len(cand), complete=all(c["complete"] for c in real)),
             sample=dict(case=real[0]["tag"], outcome=real[0]["outcomes"][0]["outcome"], schedule=real[0]["outcomes"][0]["example"]["sched"]),
             judged=judged, wall_s=round(time.time() - t0, 1), cached=False, tags=[c["tag"] for c in cases], model_summary=model_summary)
    json.dump(r, open(resf, "w"))
    return r

def main():
    if len(sys.argv) < 2: tool_error("usage: check.py <PID> [--tier quick|thorough]")
    pid = sys.argv[1]
    tier = os.environ.get("VERIF_TIER", "quick")
    if "--tier" in sys.argv: tier = sys.argv[sys.argv.index("--tier") + 1]
    seed = int(os.environ.get("VERIF_SEED", "1"))
    t0 = time.time()
    if pid not in plan.PLAN: tool_error("no plan for property " + pid)
    os.makedirs(EVID, exist_ok=True); os.makedirs(os.path.join(EVID, "replays"), exist_ok=True)
    evf = os.path.join(EVID, pid + ".json")
    if os.path.exists(evf): os.remove(evf)
    bw = build_harness()
    key = tree_hash([os.path.join(REPO, "src"), os.path.join(REPO, "Cargo.toml"), os.path.join(HARNESS, "src"),
                     os.path.join(HARNESS, "Cargo.toml"), SPEC, os.path.join(VERIF, "tools"),
                     os.path.join(VERIF, "known_findings.jsonl")])
    results = [(run_conc_suite if plan.SUITES[s]["mc"] == "MC_Conc" else run_suite)(s, tier, seed, key) for s in plan.PLAN[pid][tier]]
    # ------------------------------------------------------------ verdict
    violations, known, drift = [], collections.OrderedDict(), 0
    kfs = {k["id"]: k for k in known_findings()}
    for r in results:
        for j in r["judged"]:
            if pid in j["bad"]:
                ex = [f for f in j["explained"].get(pid, []) if kfs.get(f, {}).get("property") == pid]
                if ex:
                    known.setdefault(ex[0], []).append(j)
                else:
                    violations.append((r, j))
            elif j["kind"] == "mismatch":
                drift += 1
    for fid, js in known.items():
        log("KNOWN-FINDING: property=%s %s -- %s (e.g. %s, %d observed executions)" % (
            pid, fid, kfs[fid]["what"], js[0]["tag"], len(js)))
    if drift:
        log("DRIFT: %d observed executions differ from the specification without violating %s" % (drift, pid))
    rc = 0
    for n, (r, j) in enumerate(violations[:5]):
        path = os.path.join(EVID, "replays", "%s_%s_%d.json" % (pid, r["suite"], n))
        json.dump(j["rec"], open(path, "w"))
        log("VIOLATION property=%s replay=%s" % (pid, path))
        log("   pipeline %s (%s form, %s): monitors false on the observed execution: %s" % (j["tag"], j["form"], j["kind"], j["bad"]))
        rc = 1
    # ------------------------------------------------------------ evidence
    tot = lambda f: sum(f(r) for r in results)
    samples = []
    for r in results:
        if r.get("sample"):
            smp = r["sample"]
            samples.append(dict(suite=r["suite"], pipeline=next((c for c in r["tags"][:1]), ""), behaviour=smp))
    ev = dict(property_id=pid, tier=tier, seed=seed, level="model_checking",
              coverage=dict(states=tot(lambda r: r["tlc"]["distinct"]), transitions=tot(lambda r: r["tlc"]["states_generated"]),
                            traces_validated_against_impl=tot(lambda r: r["replay"]["behaviours"]),
                            samples=samples[:3],
                            exhaustive=all(plan.SUITES[r["suite"]].get("exhaustive", True) and r["replay"].get("complete", True) for r in results),
                            suites=[dict(suite=r["suite"], cases=r["cases"], tlc=r["tlc"], behaviours=r["behaviours"],
                                         replay=r["replay"], model_flagged=r["model_bad"],
                                         judged_on_observed_trace=len(r["judged"]), cached=r["cached"], wall_s=r["wall_s"])
                                    for r in results],
                            rule="sequential / timed suites (MC_Seq): TLC enumerates every stimulus sequence of each case's alphabet up to its "
                                 "length bound (all paths); every maximal behaviour is replayed on the real crate in both forms and compared step by "
                                 "step. thread suite (MC_Conc): TLC enumerates every schedule of the threads' scripts at lock-acquisition granularity up "
                                 "to the preemption bound; rxthreads enumerates the schedules of the real threads the same way (capped per case, see "
                                 "'complete') and every real outcome is compared with the model's outcome set and judged by TraceConc. suite 'fuzz' is "
                                 "a seeded random sample of deeper pipelines and longer scripts, not exhaustive.",
                            computed_wall_s=round(sum(r["wall_s"] for r in results), 1),
                            drift=drift, known_findings=list(known.keys())),
              assumptions=plan.ASSUMPTIONS.get(pid, plan.ASSUMPTIONS["*"]),
              wall_s=round(time.time() - t0, 1), violations=len(violations), harness_build_s=round(bw, 1))
    json.dump(ev, open(evf, "w"), indent=1)
    log("check %s tier=%s: suites=%s states=%d behaviours replayed=%d mismatches=%d violations=%d known=%d wall=%.0fs" % (
        pid, tier, [r["suite"] for r in results], ev["coverage"]["states"], ev["coverage"]["traces_validated_against_impl"],
        tot(lambda r: r["replay"]["mismatches"]), len(violations), len(known), time.time() - t0))
    sys.exit(rc)

if __name__ == "__main__":
    try:
        main()
    except subprocess.TimeoutExpired as e:
        tool_error("timeout: %s" % e)
