------------------------------- MODULE RxVal -------------------------------
(***************************************************************************)
(* Value universe of the rxRust model.                                     *)
(*                                                                         *)
(* Every value that flows through a stream is a TAGGED TUPLE, so that TLC  *)
(* can compare any two of them with "=" (the tag decides before two        *)
(* components of different type are compared):                             *)
(*   <<"i",n>> integer      <<"b",b>> boolean     <<"u">> unit             *)
(*   <<"p",x,y>> pair       <<"l",<<..>>>> list   <<"e",n>> error value    *)
(*   <<"none">> / <<"s",x>> Option                                          *)
(*   <<"g",sid,key>> a group announced by group_by (key + subject id)      *)
(* The Rust harness (harness/src/val.rs) mirrors this type and the fixed   *)
(* families of functions below one-to-one.                                 *)
(***************************************************************************)
EXTENDS Integers, Sequences

I(n)      == <<"i", n>>
B(b)      == <<"b", b>>
P(x, y)   == <<"p", x, y>>
L(s)      == <<"l", s>>
U         == <<"u">>
Er(n)     == <<"e", n>>
NoneV     == <<"none">>
SomeV(x)  == <<"s", x>>
G(sid, k) == <<"g", sid, k>>

IsSome(o) == o[1] = "s"
Unwrap(o) == o[2]

RECURSIVE W(_), WSeq(_)
(* total "weight" of a value: makes every function family total *)
W(v) == CASE v[1] = "i" -> v[2]
          [] v[1] = "b" -> IF v[2] THEN 1 ELSE 0
          [] v[1] = "p" -> W(v[2]) + W(v[3])
          [] v[1] = "l" -> WSeq(v[2])
          [] v[1] = "s" -> W(v[2])
          [] v[1] = "e" -> v[2]
          [] v[1] = "g" -> W(v[3])
          [] OTHER      -> 0
WSeq(s) == IF s = <<>> THEN 0 ELSE W(Head(s)) + WSeq(Tail(s))

(* predicates, by code *)
Pred(c, v) == CASE c = 0 -> FALSE
                [] c = 1 -> TRUE
                [] c = 2 -> W(v) % 2 = 0
                [] c = 3 -> W(v) % 2 = 1
                [] c = 4 -> W(v) < 1
                [] c = 5 -> W(v) >= 1
                [] c = 6 -> W(v) < 2
                [] OTHER -> TRUE

(* map functions, by code; 10 + p is "apply predicate p" (used by all()) *)
MapF(c, v) == CASE c = 1 -> I(W(v) + 1)
                [] c = 2 -> I(W(v) * 2)
                [] c = 3 -> I(W(v) % 2)
                [] c = 4 -> P(v, v)
                [] c = 5 -> IF IsSome(v) THEN Unwrap(v) ELSE v     \* |v| v.unwrap() of min()/max()
                [] c >= 10 -> B(Pred(c - 10, v))
                [] OTHER -> v

(* key functions (distinct_key, distinct_until_key_changed, group_by) *)
KeyF(c, v) == CASE c = 0 -> I(0)
                [] c = 1 -> v
                [] c = 2 -> I(W(v) % 2)
                [] OTHER -> v

(* filter_map functions: Option result *)
FMapF(c, v) == CASE c = 1 -> IF W(v) % 2 = 0 THEN SomeV(I(W(v) + 10)) ELSE NoneV
                 [] c = 2 -> IF W(v) >= 1 THEN SomeV(v) ELSE NoneV
                 [] OTHER -> SomeV(v)

(* binary accumulators (scan / reduce), and combiners (combine_latest) *)
BinF(c, acc, v) == CASE c = 1 -> I(W(acc) + W(v))          \* sum
                     [] c = 2 -> I(W(acc) + 1)              \* count
                     [] c = 3 -> P(acc, v)                  \* pair
                     [] c = 4 -> IF IsSome(acc) /\ W(Unwrap(acc)) > W(v) THEN acc ELSE SomeV(v)  \* max_fn
                     [] c = 5 -> IF IsSome(acc) /\ W(Unwrap(acc)) < W(v) THEN acc ELSE SomeV(v)  \* min_fn
                     [] c = 6 -> P(I(W(acc[2]) + W(v)), I(W(acc[3]) + 1))  \* average accumulator (sum,count)
                     [] OTHER -> v

(* error mapping (on_error_map) *)
ErrF(c, e) == CASE c = 1 -> Er(W(e) + 10)
                [] OTHER -> e

RECURSIVE SeqContains(_, _)
SeqContains(s, x) == IF s = <<>> THEN FALSE
                     ELSE IF Head(s) = x THEN TRUE ELSE SeqContains(Tail(s), x)

RECURSIVE IndexOf(_, _)
(* 1-based index of x in s, 0 if absent *)
IndexOf(s, x) == IF s = <<>> THEN 0
                 ELSE IF Head(s) = x THEN 1
                 ELSE LET r == IndexOf(Tail(s), x) IN IF r = 0 THEN 0 ELSE r + 1

LastN(s, n) == IF Len(s) <= n THEN s ELSE SubSeq(s, Len(s) - n + 1, Len(s))
=============================================================================
