------------------------------- MODULE RxOps --------------------------------
(***************************************************************************)
(* Observer programs, one per operator of src/ops/*.rs.                    *)
(*                                                                         *)
(* Unary(nd,t,v): the by-value single-input observers (they own their      *)
(* downstream; terminals consume them) as Mealy machines: new local state  *)
(* + the frames to execute (downstream calls, counter bumps).              *)
(* CellBody(st,n,t,v): observers that live in a shared MutRc/MutArc cell;  *)
(* executed between Acq(n) and Rel(n), i.e. with the cell locked during    *)
(* the downstream call exactly as the Rust guard is held.                  *)
(* Fin(st,n): Observer::is_finished as each observer forwards it.          *)
(***************************************************************************)
EXTENDS RxCore

R(nd, out) == [nd |-> nd, out |-> out]

UnaryKinds == {"map", "map_to", "filter", "filter_map", "tap", "on_error_map",
               "on_complete", "on_error", "scan", "skip", "skip_while",
               "skip_last", "take_last", "last", "default_if_empty", "distinct",
               "distinct_key", "duc", "dukc", "pairwise", "buffer_count",
               "collect", "take", "take_while", "contains", "status",
               "zipA", "zipB", "clA", "clB"}

(* kinds whose Option<O> slot is part of the by-value observer *)
OwnSlotKinds == {"take", "take_while", "contains"}

Unary(nd, t, v) ==
  LET d == nd.d
      k == nd.k
      fwd == R(nd, <<Call(d, t, v)>>)
      none == R(nd, <<>>)
  IN
  CASE k = "map" ->
         IF t = "N" THEN R(nd, (IF nd.b > 0 THEN <<Bump(nd.b)>> ELSE <<>>) \o <<CallN(d, MapF(nd.a, v))>>)
         ELSE fwd
    [] k = "map_to" -> IF t = "N" THEN R(nd, <<CallN(d, nd.v)>>) ELSE fwd
    [] k = "filter" -> IF t = "N" /\ ~Pred(nd.a, v) THEN none ELSE fwd
    [] k = "filter_map" ->
         IF t = "N" THEN LET r == FMapF(nd.a, v) IN
                         IF IsSome(r) THEN R(nd, <<CallN(d, Unwrap(r))>>) ELSE none
         ELSE fwd
    [] k = "tap" -> IF t = "N" THEN R(nd, <<Bump(nd.b), CallN(d, v)>>) ELSE fwd
    [] k = "on_error_map" -> IF t = "E" THEN R(nd, <<CallE(d, ErrF(nd.a, v))>>) ELSE fwd
    [] k = "on_complete" -> IF t = "C" THEN R(nd, <<Bump(nd.b), CallC(d)>>) ELSE fwd
    [] k = "on_error" -> IF t = "E" THEN R(nd, <<Bump(nd.b)>>) ELSE fwd
    [] k = "scan" ->
         IF t = "N" THEN LET acc == BinF(nd.a, nd.v, v) IN
                         R([nd EXCEPT !.v = acc], <<CallN(d, acc)>>)
         ELSE fwd
    [] k = "skip" ->
         IF t = "N" THEN LET nd1 == [nd EXCEPT !.n = @ + 1] IN
                         IF nd1.n > nd.a THEN R(nd1, <<CallN(d, v)>>) ELSE R(nd1, <<>>)
         ELSE fwd
    [] k = "skip_while" ->
         IF t = "N" THEN
           IF nd.g THEN fwd
           ELSE IF ~Pred(nd.a, v) THEN R([nd EXCEPT !.g = TRUE], <<CallN(d, v)>>)
           ELSE none
         ELSE fwd
    [] k = "skip_last" ->       \* n = count_down
         IF t = "N" THEN
           LET q1 == Append(nd.q, v) IN
           IF nd.n = 0 THEN R([nd EXCEPT !.q = Tail(q1)], <<CallN(d, Head(q1))>>)
           ELSE R([nd EXCEPT !.q = q1, !.n = @ - 1], <<>>)
         ELSE fwd
    [] k = "take_last" ->
         IF t = "N" THEN R([nd EXCEPT !.q = LastN(Append(@, v), nd.a)], <<>>)
         ELSE IF t = "C" THEN R([nd EXCEPT !.q = <<>>], CallNs(d, nd.q) \o <<CallC(d)>>)
         ELSE fwd
    [] k = "last" ->
         IF t = "N" THEN R([nd EXCEPT !.v = SomeV(v)], <<>>)
         ELSE IF t = "C" THEN
           R(nd, (IF IsSome(nd.v) THEN <<CallN(d, Unwrap(nd.v))>> ELSE <<>>) \o <<CallC(d)>>)
         ELSE fwd
    [] k = "default_if_empty" ->  \* f = is_empty, v = default
         IF t = "N" THEN R([nd EXCEPT !.f = FALSE], <<CallN(d, v)>>)
         ELSE IF t = "C" THEN
           R(nd, (IF nd.f THEN <<CallN(d, nd.v)>> ELSE <<>>) \o <<CallC(d)>>)
         ELSE fwd
    [] k = "distinct" ->
         IF t = "N" THEN
           IF SeqContains(nd.q, v) THEN none
           ELSE R([nd EXCEPT !.q = Append(@, v)], <<CallN(d, v)>>)
         ELSE fwd
    [] k = "distinct_key" ->
         IF t = "N" THEN
           LET key == KeyF(nd.a, v) IN
           IF SeqContains(nd.q, key) THEN none
           ELSE R([nd EXCEPT !.q = Append(@, key)], <<CallN(d, v)>>)
         ELSE fwd
    [] k = "duc" ->               \* v2 = last : Option
         IF t = "N" THEN
           IF ~IsSome(nd.v2) \/ Unwrap(nd.v2) # v
           THEN R([nd EXCEPT !.v2 = SomeV(v)], <<CallN(d, v)>>) ELSE none
         ELSE fwd
    [] k = "dukc" ->
         IF t = "N" THEN
           IF ~IsSome(nd.v2) \/ KeyF(nd.a, Unwrap(nd.v2)) # KeyF(nd.a, v)
           THEN R([nd EXCEPT !.v2 = SomeV(v)], <<CallN(d, v)>>) ELSE none
         ELSE fwd
    [] k = "pairwise" ->          \* v2 = previous : Option
         IF t = "N" THEN
           R([nd EXCEPT !.v2 = SomeV(v)],
             IF IsSome(nd.v2) THEN <<CallN(d, P(Unwrap(nd.v2), v))>> ELSE <<>>)
         ELSE fwd
    [] k = "buffer_count" ->
         IF t = "N" THEN
           LET q1 == Append(nd.q, v) IN
           IF Len(q1) >= nd.a THEN R([nd EXCEPT !.q = <<>>], <<CallN(d, L(q1))>>)
           ELSE R([nd EXCEPT !.q = q1], <<>>)
         ELSE IF t = "C" THEN
           R([nd EXCEPT !.q = <<>>],
             (IF nd.q # <<>> THEN <<CallN(d, L(nd.q))>> ELSE <<>>) \o <<CallC(d)>>)
         ELSE fwd
    [] k = "collect" ->
         IF t = "N" THEN R([nd EXCEPT !.q = Append(@, v)], <<>>)
         ELSE IF t = "C" THEN R(nd, <<CallN(d, L(nd.q)), CallC(d)>>)
         ELSE fwd
    [] k = "take" ->              \* f = slot live, n = hits, a = count
         IF t = "N" THEN
           IF nd.n < nd.a /\ nd.f THEN
             IF nd.n + 1 = nd.a
             THEN R([nd EXCEPT !.n = @ + 1, !.f = FALSE], <<CallN(d, v), CallC(d)>>)
             ELSE R([nd EXCEPT !.n = @ + 1], <<CallN(d, v)>>)
           ELSE none
         ELSE IF nd.f THEN R([nd EXCEPT !.f = FALSE], <<Call(d, t, v)>>) ELSE none
    [] k = "take_while" ->        \* a = pred, b = inclusive
         IF t = "N" THEN
           IF nd.f THEN
             IF Pred(nd.a, v) THEN fwd
             ELSE R([nd EXCEPT !.f = FALSE],
                    (IF nd.b = 1 THEN <<CallN(d, v)>> ELSE <<>>) \o <<CallC(d)>>)
           ELSE none
         ELSE IF nd.f THEN R([nd EXCEPT !.f = FALSE], <<Call(d, t, v)>>) ELSE none
    [] k = "contains" ->          \* v = target
         IF t = "N" THEN
           IF nd.v = v /\ nd.f
           THEN R([nd EXCEPT !.f = FALSE], <<CallN(d, B(TRUE)), CallC(d)>>) ELSE none
         ELSE IF t = "E" THEN
           IF nd.f THEN R([nd EXCEPT !.f = FALSE], <<CallE(d, v)>>) ELSE none
         ELSE IF nd.f THEN R([nd EXCEPT !.f = FALSE], <<CallN(d, B(FALSE)), CallC(d)>>) ELSE none
    [] k = "status" ->            \* c = status cell node
         IF t = "N" THEN fwd
         ELSE R(nd, <<Call(d, t, v), F2("setstatus", nd.c, IF t = "C" THEN 1 ELSE 2)>>)    \* forward, then flag.store, then wake
    (* ports of zip / combine_latest: tag the item, forward to the shared cell *)
    [] k = "zipA" \/ k = "clA" -> IF t = "N" THEN R(nd, <<Call(d, "NA", v)>>) ELSE fwd
    [] k = "zipB" \/ k = "clB" -> IF t = "N" THEN R(nd, <<Call(d, "NB", v)>>) ELSE fwd
    [] OTHER -> none

(* ----------------------- shared cells ---------------------------------- *)
CellKinds == {"slot", "merge", "zip", "clatest", "bufcell"}

(* body of a cell observer, executed with the cell locked *)
CellBody(st, n, t, v) ==
  LET nd == st.nodes[n]
      d  == nd.d
      k  == nd.k
      set(nd1) == [st EXCEPT !.nodes[n] = nd1]
      (* terminal through an Option slot: take it, then call *)
      term == IF nd.f THEN Push(set([nd EXCEPT !.f = FALSE]), <<Call(d, t, v)>>) ELSE st
      (* count completions: first one recorded, second one completes *)
      twoC == IF nd.g THEN term ELSE set([nd EXCEPT !.g = TRUE])
  IN
  CASE k = "slot" ->
         IF t = "N" THEN (IF nd.f THEN Push(st, <<CallN(d, v)>>) ELSE st) ELSE term
    [] k = "merge" ->
         IF t = "N" THEN (IF nd.f THEN Push(st, <<CallN(d, v)>>) ELSE st)
         ELSE IF t = "E" THEN term ELSE twoC
    [] k = "zip" ->              \* q = queue a, q2 = queue b
         IF t = "NA" THEN
           IF nd.q2 # <<>>
           THEN LET st1 == set([nd EXCEPT !.q2 = Tail(@)]) IN
                IF nd.f THEN Push(st1, <<CallN(d, P(v, Head(nd.q2)))>>) ELSE st1
           ELSE set([nd EXCEPT !.q = Append(@, v)])
         ELSE IF t = "NB" THEN
           IF nd.q # <<>>
           THEN LET st1 == set([nd EXCEPT !.q = Tail(@)]) IN
                IF nd.f THEN Push(st1, <<CallN(d, P(Head(nd.q), v))>>) ELSE st1
           ELSE set([nd EXCEPT !.q2 = Append(@, v)])
         ELSE IF t = "E" THEN term ELSE twoC
    [] k = "clatest" ->          \* v = a : Option, v2 = b : Option, a = combiner code
         IF t = "NA" \/ t = "NB" THEN
           LET nd1 == IF t = "NA" THEN [nd EXCEPT !.v = SomeV(v)] ELSE [nd EXCEPT !.v2 = SomeV(v)]
               st1 == set(nd1) IN
           IF nd1.f /\ IsSome(nd1.v) /\ IsSome(nd1.v2)
           THEN Push(st1, <<CallN(d, P(Unwrap(nd1.v), Unwrap(nd1.v2)))>>)
           ELSE st1
         ELSE IF t = "E" THEN term ELSE twoC
    [] k = "bufcell" ->          \* MutArc<Option<BufferObserver>>: q = data
         IF ~nd.f THEN st
         ELSE IF t = "N" THEN        \* a > 0: buffer_with_count_and_time emits when the count is reached
           LET q1 == Append(nd.q, v) IN
           IF nd.a > 0 /\ Len(q1) >= nd.a THEN Push(set([nd EXCEPT !.q = <<>>]), <<CallN(d, L(q1))>>)
           ELSE set([nd EXCEPT !.q = q1])
         ELSE IF t = "flush" THEN       \* notifier tick / timer tick: emit()
           IF nd.q # <<>> THEN Push(set([nd EXCEPT !.q = <<>>]), <<CallN(d, L(nd.q))>>) ELSE st
         ELSE IF t = "C" THEN
           Push(set([nd EXCEPT !.f = FALSE, !.q = <<>>]),
                (IF nd.q # <<>> THEN <<CallN(d, L(nd.q))>> ELSE <<>>) \o <<CallC(d)>>)
         ELSE Push(set([nd EXCEPT !.f = FALSE]), <<CallE(d, v)>>)
    [] OTHER -> st

(* ----------------------- is_finished ----------------------------------- *)
(* 0 = false, 1 = true, 2 = the query touched a cell that is currently     *)
(* locked (BorrowError / self-deadlock in the real code)                   *)
RECURSIVE Fin(_, _)
Fin(st, n) ==
  LET nd == st.nodes[n] k == nd.k IN
  CASE k = "probe" -> 0
    [] k \in OwnSlotKinds -> IF ~nd.f THEN 1 ELSE Fin(st, nd.d)
    [] k \in CellKinds \/ k = "mall" ->
         IF RHeld(nd) THEN 2 ELSE IF ~nd.f THEN 1 ELSE Fin(st, nd.d)
    [] k = "suN" ->              \* notifier of skip_until: done once the gate is open or the main observer is gone
         LET slot == st.nodes[nd.d] IN
         IF ~st.nodes[nd.c].f THEN 1 ELSE IF RHeld(slot) THEN 2 ELSE IF slot.f THEN 0 ELSE 1
    [] k = "subjobs" ->          \* Subject::is_finished = observers.rc_deref().is_none()
         LET on == st.nodes[st.subj[nd.c].o] IN IF RHeld(on) THEN 2 ELSE IF on.f THEN 0 ELSE 1
    [] k = "futobs" \/ k = "strobs" -> IF nd.g THEN 1 ELSE 0      \* sender.is_closed()
    [] k = "group_by" ->         \* the stream of groups is finished and so is every group announced so far (q2 = their subjects)
         LET outer == Fin(st, nd.d)
             on(i) == st.nodes[st.subj[nd.q2[i]].o] IN
         IF outer # 1 THEN outer
         ELSE IF \E i \in 1..Len(nd.q2) : RHeld(on(i)) THEN 2
         ELSE IF \A i \in 1..Len(nd.q2) : ~on(i).f THEN 1 ELSE 0
    [] OTHER -> Fin(st, nd.d)
=============================================================================
