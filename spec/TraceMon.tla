------------------------------ MODULE TraceMon ------------------------------
(***************************************************************************)
(* Judges executions RECORDED FROM THE REAL CRATE with the monitors of     *)
(* RxProps -- no machine involved: only the property definitions, the      *)
(* reference semantics and the observed trace.  One record per line of the *)
(* ndjson file named by the environment variable TRACE:                    *)
(*   [c |-> case index, form |-> "local"|"threads",                        *)
(*    steps |-> <<[s |-> stimulus, o |-> [log, ret, fault, cnt]], ...>>]   *)
(* For every record one line  {"i":..,"c":..,"form":..,"bad":[ids]}  is    *)
(* printed; check.py turns a non-empty "bad" into VIOLATION / KNOWN-FINDING*)
(* (the latter only if the same trace is accepted with the deviations      *)
(* listed in known_findings.jsonl switched on, constant KF).               *)
(***************************************************************************)
EXTENDS RxProps, Json, IOUtils

Recs == ndJsonDeserialize(IOEnv.TRACE)

VARIABLE i

Init == i = 1

Next == /\ i <= Len(Recs)
        /\ LET r == Recs[i]
               (* xf > 0: the real crate panicked / deadlocked at step xf where the specification (which  *)
               (* predicts the faults of re-entrant use) predicts none: the notifications the aborted call *)
               (* still owed were not delivered                                                           *)
               crash == IF r.xf > 0 THEN SetToSeq(Cases[r.c].checks \cap (RefProps \cup {"C05", "C07", "C08", "C09", "C10", "C14", "C16", "C19", "C20"})) ELSE <<>>
               (* C18: the record carries the observations of the thread-safe form of the same history *)
               c18 == IF "other" \in DOMAIN r /\ "C18" \in Cases[r.c].checks THEN <<"C18">> ELSE <<>>   \* the replayer found the two forms to differ
               (* xfin > 0 (cases marked "C15x": finalize below other operators, where what completes its subscription is not   *)
               (* visible from the subscriber's side): the finalizer counter of the crate left the one the specification gives   *)
               (* at step xfin -- the callback ran at another moment, or another number of times, than specified                *)
               c15 == IF "xfin" \in DOMAIN r /\ r.xfin > 0 /\ "C15x" \in Cases[r.c].checks THEN <<"C15">> ELSE <<>>
               bad == MonRun(Mon0, r.steps, Cases[r.c]) \o crash \o c18 \o c15 IN
           PrintT(ToJson([i |-> i, c |-> r.c, form |-> r.form, bad |-> bad]))
        /\ i' = i + 1

Spec == Init /\ [][Next]_i

(* every record must have been judged *)
AllJudged == TLCGet("stats").diameter = Len(Recs) + 1
=============================================================================
