------------------------------- MODULE RxRef --------------------------------
(***************************************************************************)
(* Declarative reference semantics ("documented list semantics") of the    *)
(* sources and single-input operators.  Independent of the operational     *)
(* machine: every operator is a function on whole notification sequences   *)
(*                                                                         *)
(*    S == [items : Seq(Val), term : {"", "C", "E"}, ev : error value]     *)
(*                                                                         *)
(* defined for unfinished inputs too (term = ""), so that the oracle can   *)
(* be consulted after every input event (prefix monotonicity).             *)
(*                                                                         *)
(* Ref(x, hin) is the documented output of AST x when its hot inputs have  *)
(* received the notification sequences hin[a] so far.                      *)
(***************************************************************************)
EXTENDS RxCore

S(items, term, ev) == [items |-> items, term |-> term, ev |-> ev]
Done(s) == s.term # ""

(* --- generic list helpers --- *)
RECURSIVE RMap(_, _), RFilter(_, _), RTakeWhile(_, _), RDropWhile(_, _), RScan(_, _, _),
          RDistinct(_, _, _), RDedup(_, _), RPairs(_), RChunks(_, _), RFilterMap(_, _)
RMap(c, s) == IF s = <<>> THEN <<>> ELSE <<MapF(c, Head(s))>> \o RMap(c, Tail(s))
RFilter(c, s) == IF s = <<>> THEN <<>> ELSE (IF Pred(c, Head(s)) THEN <<Head(s)>> ELSE <<>>) \o RFilter(c, Tail(s))
RFilterMap(c, s) == IF s = <<>> THEN <<>>
                    ELSE (IF IsSome(FMapF(c, Head(s))) THEN <<Unwrap(FMapF(c, Head(s)))>> ELSE <<>>) \o RFilterMap(c, Tail(s))
RTakeWhile(c, s) == IF s = <<>> \/ ~Pred(c, Head(s)) THEN <<>> ELSE <<Head(s)>> \o RTakeWhile(c, Tail(s))
RDropWhile(c, s) == IF s = <<>> THEN <<>> ELSE IF Pred(c, Head(s)) THEN RDropWhile(c, Tail(s)) ELSE s
RScan(c, acc, s) == IF s = <<>> THEN <<>>
                    ELSE LET a1 == BinF(c, acc, Head(s)) IN <<a1>> \o RScan(c, a1, Tail(s))
(* keep the first occurrence of every key *)
RDistinct(c, seen, s) == IF s = <<>> THEN <<>>
                         ELSE LET k == KeyF(c, Head(s)) IN
                              IF SeqContains(seen, k) THEN RDistinct(c, seen, Tail(s))
                              ELSE <<Head(s)>> \o RDistinct(c, Append(seen, k), Tail(s))
(* drop items whose key equals the key of the previously *emitted* item *)
RDedup(c, s) == IF Len(s) <= 1 THEN s
                ELSE LET r == RDedup(c, SubSeq(s, 1, Len(s) - 1))
                         x == s[Len(s)] IN
                     IF KeyF(c, r[Len(r)]) = KeyF(c, x) THEN r ELSE Append(r, x)
RPairs(s) == IF Len(s) <= 1 THEN <<>> ELSE <<P(s[1], s[2])>> \o RPairs(Tail(s))
(* complete chunks of size n (n >= 1) *)
RChunks(n, s) == IF Len(s) < n THEN <<>> ELSE <<L(SubSeq(s, 1, n))>> \o RChunks(n, SubSeq(s, n + 1, Len(s)))
Rest(n, s) == SubSeq(s, Len(s) - (Len(s) % n) + 1, Len(s))    \* the incomplete last chunk
FirstN(n, s) == IF Len(s) <= n THEN s ELSE SubSeq(s, 1, n)
DropN(n, s) == IF Len(s) <= n THEN <<>> ELSE SubSeq(s, n + 1, Len(s))
DropLastN(n, s) == IF Len(s) <= n THEN <<>> ELSE SubSeq(s, 1, Len(s) - n)
Singles(s) == [i \in 1..Len(s) |-> L(<<s[i]>>)]

(* an operator that only transforms items: same termination *)
Items(s, items) == S(items, s.term, s.ev)
(* an operator that emits its result(s) only when the input completes; on error only the error *)
AtEnd(s, items) == IF s.term = "C" THEN S(items, "C", U) ELSE S(<<>>, s.term, s.ev)
(* an operator that cuts the stream: out = items, completed as soon as `cut` *)
Cut(s, items, cut) == IF cut THEN S(items, "C", U) ELSE S(items, s.term, s.ev)

(* documented semantics of single-input operator x applied to input s *)
RefUnary(x, s) ==
  LET o == Op(x) a == PA(x) b == PB(x) v == PV(x) it == s.items IN
  CASE o = "map" -> Items(s, RMap(a, it))
    [] o = "map_to" -> Items(s, [i \in 1..Len(it) |-> v])
    [] o = "filter" -> Items(s, RFilter(a, it))
    [] o = "filter_map" -> Items(s, RFilterMap(a, it))
    [] o = "tap" -> s
    [] o = "on_error_map" -> IF s.term = "E" THEN S(it, "E", ErrF(a, s.ev)) ELSE s
    [] o = "on_complete" -> s
    [] o = "on_error" -> IF s.term = "E" THEN S(it, "", U) ELSE s
    [] o = "scan" -> Items(s, RScan(a, v, it))
    [] o = "skip" -> Items(s, DropN(a, it))
    [] o = "skip_while" -> Items(s, RDropWhile(a, it))
    [] o = "skip_last" -> Items(s, DropLastN(a, it))
    [] o = "take_last" -> AtEnd(s, LastN(it, a))
    [] o = "last" -> AtEnd(s, LastN(it, 1))
    [] o = "last_or" -> AtEnd(s, IF it = <<>> THEN <<v>> ELSE LastN(it, 1))
    [] o = "default_if_empty" ->
         IF it = <<>> THEN AtEnd(s, <<v>>) ELSE s
    [] o = "distinct" -> Items(s, RDistinct(1, <<>>, it))
    [] o = "distinct_key" -> Items(s, RDistinct(a, <<>>, it))
    [] o = "duc" -> Items(s, RDedup(1, it))
    [] o = "dukc" -> Items(s, RDedup(a, it))
    [] o = "pairwise" -> Items(s, RPairs(it))
    [] o = "buffer_count" ->
         IF a = 0 THEN Items(s, Singles(it))      \* see AMBIGUOUS.md: count 0 behaves as count 1
         ELSE IF s.term = "C" /\ Len(it) % a # 0
              THEN S(Append(RChunks(a, it), L(Rest(a, it))), "C", U)
              ELSE Items(s, RChunks(a, it))
    [] o = "collect" -> AtEnd(s, <<L(it)>>)
    [] o = "take" ->
         IF a = 0 THEN S(<<>>, s.term, s.ev)       \* see AMBIGUOUS.md: take(0) ends with its source
         ELSE Cut(s, FirstN(a, it), Len(it) >= a)
    [] o = "first" -> Cut(s, FirstN(1, it), Len(it) >= 1)
    [] o = "first_or" ->
         IF it # <<>> THEN S(FirstN(1, it), "C", U) ELSE AtEnd(s, <<v>>)
    [] o = "element_at" -> Cut(s, FirstN(1, DropN(a, it)), Len(it) > a)
    [] o = "ignore_elements" -> Items(s, <<>>)
    [] o = "take_while" ->
         LET pre == RTakeWhile(a, it) IN
         IF Len(pre) < Len(it)
         THEN S(IF b = 1 THEN Append(pre, it[Len(pre) + 1]) ELSE pre, "C", U)
         ELSE s
    [] o = "contains" ->
         IF SeqContains(it, v) THEN S(<<B(TRUE)>>, "C", U) ELSE AtEnd(s, <<B(FALSE)>>)
    [] o = "all" ->
         IF Len(RTakeWhile(a, it)) < Len(it) THEN S(<<B(FALSE)>>, "C", U) ELSE AtEnd(s, <<B(TRUE)>>)
    [] o = "reduce_initial" ->
         AtEnd(s, IF it = <<>> THEN <<v>> ELSE LastN(RScan(a, v, it), 1))
    [] o = "sum" -> AtEnd(s, <<I(WSeq(it))>>)
    [] o = "count" -> AtEnd(s, <<I(Len(it))>>)
    [] o = "max" -> AtEnd(s, IF it = <<>> THEN <<>> ELSE <<Unwrap(LastN(RScan(4, NoneV, it), 1)[1])>>)
    [] o = "min" -> AtEnd(s, IF it = <<>> THEN <<>> ELSE <<Unwrap(LastN(RScan(5, NoneV, it), 1)[1])>>)
    [] o = "average" -> AtEnd(s, IF it = <<>> THEN <<>> ELSE <<P(I(WSeq(it)), I(Len(it)))>>)
    [] o = "start_with" -> Items(s, PL(x) \o it)
    [] o = "finalize" -> s
    [] o = "status" -> s
    [] o = "defer" -> s
    [] OTHER -> s

RefUnaryOps == {"map", "map_to", "filter", "filter_map", "tap", "on_error_map", "on_complete",
                "on_error", "scan", "skip", "skip_while", "skip_last", "take_last", "last",
                "last_or", "default_if_empty", "distinct", "distinct_key", "duc", "dukc",
                "pairwise", "buffer_count", "collect", "take", "first", "first_or",
                "element_at", "ignore_elements", "take_while", "contains", "all",
                "reduce_initial", "sum", "count", "max", "min", "average", "start_with",
                "finalize", "status", "defer"}

(* a notification sequence (as emitted into a hot input, or scripted in a cold   *)
(* `create`) read as a stream: everything after the first terminal is ignored     *)
RECURSIVE OfMsgs(_, _)
OfMsgs(ms, acc) ==
  IF ms = <<>> THEN S(acc, "", U)
  ELSE LET m == Head(ms) IN
       IF m[1] = "N" THEN OfMsgs(Tail(ms), Append(acc, m[2]))
       ELSE IF m[1] = "C" THEN S(acc, "C", U)
       ELSE S(acc, "E", m[2])

RECURSIVE Ref(_, _)
(* hin[a] = notifications sent so far into hot subject a *since the subscription was made* *)
Ref(x, hin) ==
  LET o == Op(x) IN
  CASE o = "of" -> S(<<PV(x)>>, "C", U)
    [] o = "of_option" -> S(IF IsSome(PV(x)) THEN <<Unwrap(PV(x))>> ELSE <<>>, "C", U)
    [] o = "of_result" -> IF PV(x)[1] = "e" THEN S(<<>>, "E", PV(x)) ELSE S(<<Unwrap(PV(x))>>, "C", U)
    [] o = "of_fn" \/ o = "start" -> S(<<PV(x)>>, "C", U)
    [] o = "from_iter" -> S(PL(x), "C", U)
    [] o = "repeat" -> S([i \in 1..PA(x) |-> PV(x)], "C", U)
    [] o = "empty" -> S(<<>>, "C", U)
    [] o = "never" -> S(<<>>, "", U)
    [] o = "throw" -> S(<<>>, "E", PV(x))
    [] o = "create" -> OfMsgs(PL(x), <<>>)
    [] o = "subject" \/ o = "hotc" -> OfMsgs(hin[PA(x)], <<>>)
    [] o \in RefUnaryOps -> RefUnary(x, Ref(S1(x), hin))
    [] OTHER -> S(<<>>, "", U)

(* the notification sequence a stream value denotes *)
RECURSIVE NMsgs(_)
NMsgs(items) == IF items = <<>> THEN <<>> ELSE <<<<"N", Head(items)>>>> \o NMsgs(Tail(items))
MsgsOf(s) == NMsgs(s.items) \o (IF s.term = "C" THEN <<<<"C", U>>>> ELSE IF s.term = "E" THEN <<<<"E", s.ev>>>> ELSE <<>>)
=============================================================================
