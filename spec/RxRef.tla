------------------------------- MODULE RxRef --------------------------------
(***************************************************************************)
(* Declarative reference semantics ("documented list semantics") of the    *)
(* sources and single-input operators.  Independent of the operational     *)
(* machine: every operator is a function on whole notification sequences   *)
(*                                                                         *)
(*    S == [items : Seq(Val), term : {"", "C", "E"}, ev : error value]     *)
(*                                                                         *)
(* defined for unfinished inputs too (term = ""), so that the oracle can   *)
(* be consulted after every input event (prefix monotonicity).             *)
(*                                                                         *)
(* Ref(x, tl) is the documented output of AST x when its hot inputs have   *)
(* received the timeline tl (merged sequence of <<input, t, v>>) so far.   *)
(***************************************************************************)
EXTENDS RxCore

S(items, term, ev) == [items |-> items, term |-> term, ev |-> ev]
Done(s) == s.term # ""

(* --- generic list helpers --- *)
RECURSIVE RMap(_, _), RFilter(_, _), RTakeWhile(_, _), RDropWhile(_, _), RScan(_, _, _),
          RDistinct(_, _, _), RDedup(_, _), RPairs(_), RChunks(_, _), RFilterMap(_, _)
RMap(c, s) == IF s = <<>> THEN <<>> ELSE <<MapF(c, Head(s))>> \o RMap(c, Tail(s))
RFilter(c, s) == IF s = <<>> THEN <<>> ELSE (IF Pred(c, Head(s)) THEN <<Head(s)>> ELSE <<>>) \o RFilter(c, Tail(s))
RFilterMap(c, s) == IF s = <<>> THEN <<>>
                    ELSE (IF IsSome(FMapF(c, Head(s))) THEN <<Unwrap(FMapF(c, Head(s)))>> ELSE <<>>) \o RFilterMap(c, Tail(s))
RTakeWhile(c, s) == IF s = <<>> \/ ~Pred(c, Head(s)) THEN <<>> ELSE <<Head(s)>> \o RTakeWhile(c, Tail(s))
RDropWhile(c, s) == IF s = <<>> THEN <<>> ELSE IF Pred(c, Head(s)) THEN RDropWhile(c, Tail(s)) ELSE s
RScan(c, acc, s) == IF s = <<>> THEN <<>>
                    ELSE LET a1 == BinF(c, acc, Head(s)) IN <<a1>> \o RScan(c, a1, Tail(s))
(* keep the first occurrence of every key *)
RDistinct(c, seen, s) == IF s = <<>> THEN <<>>
                         ELSE LET k == KeyF(c, Head(s)) IN
                              IF SeqContains(seen, k) THEN RDistinct(c, seen, Tail(s))
                              ELSE <<Head(s)>> \o RDistinct(c, Append(seen, k), Tail(s))
(* drop items whose key equals the key of the previously *emitted* item *)
RDedup(c, s) == IF Len(s) <= 1 THEN s
                ELSE LET r == RDedup(c, SubSeq(s, 1, Len(s) - 1))
                         x == s[Len(s)] IN
                     IF KeyF(c, r[Len(r)]) = KeyF(c, x) THEN r ELSE Append(r, x)
RPairs(s) == IF Len(s) <= 1 THEN <<>> ELSE <<P(s[1], s[2])>> \o RPairs(Tail(s))
(* complete chunks of size n (n >= 1) *)
RChunks(n, s) == IF Len(s) < n THEN <<>> ELSE <<L(SubSeq(s, 1, n))>> \o RChunks(n, SubSeq(s, n + 1, Len(s)))
Rest(n, s) == SubSeq(s, Len(s) - (Len(s) % n) + 1, Len(s))    \* the incomplete last chunk
FirstN(n, s) == IF Len(s) <= n THEN s ELSE SubSeq(s, 1, n)
DropN(n, s) == IF Len(s) <= n THEN <<>> ELSE SubSeq(s, n + 1, Len(s))
DropLastN(n, s) == IF Len(s) <= n THEN <<>> ELSE SubSeq(s, 1, Len(s) - n)
Singles(s) == [i \in 1..Len(s) |-> L(<<s[i]>>)]

(* an operator that only transforms items: same termination *)
Items(s, items) == S(items, s.term, s.ev)
(* an operator that emits its result(s) only when the input completes; on error only the error *)
AtEnd(s, items) == IF s.term = "C" THEN S(items, "C", U) ELSE S(<<>>, s.term, s.ev)
(* an operator that cuts the stream: out = items, completed as soon as `cut` *)
Cut(s, items, cut) == IF cut THEN S(items, "C", U) ELSE S(items, s.term, s.ev)

(* documented semantics of single-input operator x applied to input s *)
RefUnary(x, s) ==
  LET o == Op(x) a == PA(x) b == PB(x) v == PV(x) it == s.items IN
  CASE o = "map" -> Items(s, RMap(a, it))
    [] o = "map_to" -> Items(s, [i \in 1..Len(it) |-> v])
    [] o = "filter" -> Items(s, RFilter(a, it))
    [] o = "filter_map" -> Items(s, RFilterMap(a, it))
    [] o = "tap" -> s
    [] o = "on_error_map" -> IF s.term = "E" THEN S(it, "E", ErrF(a, s.ev)) ELSE s
    [] o = "on_complete" -> s
    [] o = "on_error" -> IF s.term = "E" THEN S(it, "", U) ELSE s
    [] o = "scan" -> Items(s, RScan(a, v, it))
    [] o = "skip" -> Items(s, DropN(a, it))
    [] o = "skip_while" -> Items(s, RDropWhile(a, it))
    [] o = "skip_last" -> Items(s, DropLastN(a, it))
    [] o = "take_last" -> AtEnd(s, LastN(it, a))
    [] o = "last" -> AtEnd(s, LastN(it, 1))
    [] o = "last_or" -> AtEnd(s, IF it = <<>> THEN <<v>> ELSE LastN(it, 1))
    [] o = "default_if_empty" ->
         IF it = <<>> THEN AtEnd(s, <<v>>) ELSE s
    [] o = "distinct" -> Items(s, RDistinct(1, <<>>, it))
    [] o = "distinct_key" -> Items(s, RDistinct(a, <<>>, it))
    [] o = "duc" -> Items(s, RDedup(1, it))
    [] o = "dukc" -> Items(s, RDedup(a, it))
    [] o = "pairwise" -> Items(s, RPairs(it))
    [] o = "buffer_count" ->
         IF a = 0 THEN Items(s, Singles(it))      \* see AMBIGUOUS.md: count 0 behaves as count 1
         ELSE IF s.term = "C" /\ Len(it) % a # 0
              THEN S(Append(RChunks(a, it), L(Rest(a, it))), "C", U)
              ELSE Items(s, RChunks(a, it))
    [] o = "collect" -> AtEnd(s, <<L(PL(x) \o it)>>)
    [] o = "take" ->
         IF a = 0 THEN S(<<>>, s.term, s.ev)       \* see AMBIGUOUS.md: take(0) ends with its source
         ELSE Cut(s, FirstN(a, it), Len(it) >= a)
    [] o = "first" -> Cut(s, FirstN(1, it), Len(it) >= 1)
    [] o = "first_or" ->
         IF it # <<>> THEN S(FirstN(1, it), "C", U) ELSE AtEnd(s, <<v>>)
    [] o = "element_at" -> Cut(s, FirstN(1, DropN(a, it)), Len(it) > a)
    [] o = "ignore_elements" -> Items(s, <<>>)
    [] o = "take_while" ->
         LET pre == RTakeWhile(a, it) IN
         IF Len(pre) < Len(it)
         THEN S(IF b = 1 THEN Append(pre, it[Len(pre) + 1]) ELSE pre, "C", U)
         ELSE s
    [] o = "contains" ->
         IF SeqContains(it, v) THEN S(<<B(TRUE)>>, "C", U) ELSE AtEnd(s, <<B(FALSE)>>)
    [] o = "all" ->
         IF Len(RTakeWhile(a, it)) < Len(it) THEN S(<<B(FALSE)>>, "C", U) ELSE AtEnd(s, <<B(TRUE)>>)
    [] o = "reduce_initial" ->
         AtEnd(s, IF it = <<>> THEN <<v>> ELSE LastN(RScan(a, v, it), 1))
    [] o = "sum" -> AtEnd(s, <<I(WSeq(it))>>)
    [] o = "count" -> AtEnd(s, <<I(Len(it))>>)
    [] o = "max" -> AtEnd(s, IF it = <<>> THEN <<>> ELSE <<Unwrap(LastN(RScan(4, NoneV, it), 1)[1])>>)
    [] o = "min" -> AtEnd(s, IF it = <<>> THEN <<>> ELSE <<Unwrap(LastN(RScan(5, NoneV, it), 1)[1])>>)
    [] o = "average" -> AtEnd(s, IF it = <<>> THEN <<>> ELSE <<P(I(WSeq(it)), I(Len(it)))>>)
    [] o = "start_with" -> Items(s, PL(x) \o it)
    [] o = "finalize" -> s
    [] o = "status" -> s
    [] o = "defer" -> s
    (* scheduler-moving operators: the same sequence, later (the timing part is monitor C07) *)
    [] o \in {"delay", "observe_on", "delay_subscription", "subscribe_on"} -> s
    [] OTHER -> s

RefUnaryOps == {"map", "map_to", "filter", "filter_map", "tap", "on_error_map", "on_complete",
                "on_error", "scan", "skip", "skip_while", "skip_last", "take_last", "last",
                "last_or", "default_if_empty", "distinct", "distinct_key", "duc", "dukc",
                "pairwise", "buffer_count", "collect", "take", "first", "first_or",
                "element_at", "ignore_elements", "take_while", "contains", "all",
                "reduce_initial", "sum", "count", "max", "min", "average", "start_with",
                "finalize", "status", "defer", "delay", "observe_on", "delay_subscription", "subscribe_on"}

(* a notification sequence (as emitted into a hot input, or scripted in a cold   *)
(* `create`) read as a stream: everything after the first terminal is ignored     *)
RECURSIVE OfMsgs(_, _)
OfMsgs(ms, acc) ==
  IF ms = <<>> THEN S(acc, "", U)
  ELSE LET m == Head(ms) IN
       IF m[1] = "N" THEN OfMsgs(Tail(ms), Append(acc, m[2]))
       ELSE IF m[1] = "C" THEN S(acc, "C", U)
       ELSE IF m[1] = "X" THEN S(acc, "", U)        \* the subject itself was unsubscribed: silence
       ELSE S(acc, "E", m[2])

(* the notification sequence a stream value denotes *)
RECURSIVE NMsgs(_)
NMsgs(items) == IF items = <<>> THEN <<>> ELSE <<<<"N", Head(items)>>>> \o NMsgs(Tail(items))
MsgsOf(s) == NMsgs(s.items) \o (IF s.term = "C" THEN <<<<"C", U>>>> ELSE IF s.term = "E" THEN <<<<"E", s.ev>>>> ELSE <<>>)

(* A timeline is the sequence of notifications <<a, t, v>> sent into the hot     *)
(* inputs a since the subscription was made.  Sel = what input a received.       *)
RECURSIVE Sel(_, _)
Sel(tl, a) == IF tl = <<>> THEN <<>>
              ELSE (IF Head(tl)[1] = a THEN <<<<Head(tl)[2], Head(tl)[3]>>>> ELSE <<>>) \o Sel(Tail(tl), a)

(* ----------------------------------------------------------------------- *)
(* Two-input combinators: a fold over the merged timeline of what their    *)
(* two inputs deliver, <<port, t, v>> with port 1 = the receiver (`self`), *)
(* 2 = the argument.                                                       *)
(* ----------------------------------------------------------------------- *)
T0 == [out |-> <<>>, done |-> FALSE, c1 |-> FALSE, c2 |-> FALSE, l1 |-> NoneV, l2 |-> NoneV,
       q1 |-> <<>>, q2 |-> <<>>, open |-> FALSE, d1 |-> FALSE, d2 |-> FALSE]

Emit(z, v)    == [z EXCEPT !.out = Append(@, <<"N", v>>)]
Finish(z, t, v) == [z EXCEPT !.out = Append(@, <<t, v>>), !.done = TRUE]

(* both inputs completed => complete; first error => error (merge, zip, combine_latest) *)
BothC(z, port) ==
  LET z1 == IF port = 1 THEN [z EXCEPT !.c1 = TRUE] ELSE [z EXCEPT !.c2 = TRUE] IN
  IF z1.c1 /\ z1.c2 THEN Finish(z1, "C", U) ELSE z1

TwoStep(o, z0, ev, var) ==
  LET port == ev[1] t == ev[2] v == ev[3]
      (* an input that has terminated delivers nothing more *)
      dead == (port = 1 /\ z0.d1) \/ (port = 2 /\ z0.d2)
      z == IF t = "N" THEN z0 ELSE IF port = 1 THEN [z0 EXCEPT !.d1 = TRUE] ELSE [z0 EXCEPT !.d2 = TRUE]
  IN
  IF z0.done \/ dead THEN z0
  ELSE
  CASE o = "merge" ->
         IF t = "N" THEN Emit(z, v) ELSE IF t = "E" THEN Finish(z, "E", v) ELSE BothC(z, port)
    [] o = "zip" ->
         IF t = "N" THEN
           IF port = 1 THEN (IF z.q2 # <<>> THEN Emit([z EXCEPT !.q2 = Tail(@)], P(v, Head(z.q2)))
                             ELSE [z EXCEPT !.q1 = Append(@, v)])
           ELSE (IF z.q1 # <<>> THEN Emit([z EXCEPT !.q1 = Tail(@)], P(Head(z.q1), v))
                 ELSE [z EXCEPT !.q2 = Append(@, v)])
         ELSE IF t = "E" THEN Finish(z, "E", v) ELSE BothC(z, port)
    [] o = "combine_latest" ->
         IF t = "N" THEN
           LET z1 == IF port = 1 THEN [z EXCEPT !.l1 = SomeV(v)] ELSE [z EXCEPT !.l2 = SomeV(v)] IN
           IF IsSome(z1.l1) /\ IsSome(z1.l2) THEN Emit(z1, P(Unwrap(z1.l1), Unwrap(z1.l2))) ELSE z1
         ELSE IF t = "E" THEN Finish(z, "E", v) ELSE BothC(z, port)
    [] o = "with_latest_from" ->
         IF port = 2 THEN (IF t = "N" THEN [z EXCEPT !.l2 = SomeV(v)]
                           ELSE IF t = "E" THEN Finish(z, "E", v) ELSE z)
         ELSE IF t = "N" THEN (IF IsSome(z.l2) THEN Emit(z, P(v, Unwrap(z.l2))) ELSE z)
         ELSE Finish(z, t, v)
    [] o = "take_until" ->
         IF port = 2 THEN (IF t = "N" THEN Finish(z, "C", U) ELSE z)
         ELSE IF t = "N" THEN Emit(z, v) ELSE Finish(z, t, v)
    [] o = "skip_until" ->
         (* AMBIGUOUS.md: a notifier that completes without an item also opens the gate (variant "su-c") *)
         IF port = 2 THEN (IF t = "N" \/ (t = "C" /\ "su-c" \in var) THEN [z EXCEPT !.open = TRUE] ELSE z)
         ELSE IF t = "N" THEN (IF z.open THEN Emit(z, v) ELSE z) ELSE Finish(z, t, v)
    [] o = "sample" ->
         (* AMBIGUOUS.md: a completing sampler also releases the pending item (variant "smp-c") *)
         IF port = 1 THEN (IF t = "N" THEN [z EXCEPT !.l1 = SomeV(v)] ELSE Finish(z, t, v))
         ELSE IF t = "E" THEN Finish(z, "E", v)
         ELSE IF t = "N" \/ "smp-c" \in var
              THEN (IF IsSome(z.l1) THEN Emit([z EXCEPT !.l1 = NoneV], Unwrap(z.l1)) ELSE z)
              ELSE z
    [] o = "buffer" ->
         LET flush(zz) == IF zz.q1 # <<>> THEN Emit([zz EXCEPT !.q1 = <<>>], L(zz.q1)) ELSE zz IN
         IF t = "E" THEN Finish(z, "E", v)
         ELSE IF t = "C" THEN Finish(flush(z), "C", U)
         ELSE IF port = 1 THEN [z EXCEPT !.q1 = Append(@, v)] ELSE flush(z)
    [] OTHER -> z

RECURSIVE TwoFold(_, _, _, _)
TwoFold(o, z, evs, var) == IF evs = <<>> THEN z ELSE TwoFold(o, TwoStep(o, z, Head(evs), var), Tail(evs), var)

CutName(k) == CASE k = 0 -> "cut0" [] k = 1 -> "cut1" [] k = 2 -> "cut2" [] k = 3 -> "cut3" [] k = 4 -> "cut4"
                 [] k = 5 -> "cut5" [] k = 6 -> "cut6" [] k = 7 -> "cut7" [] OTHER -> "cut8"

(* interpretations the documentation leaves open (spec/AMBIGUOUS.md); a subscriber's log is *)
(* accepted if it equals the reference under SOME combination of them                       *)
AmbiguousChoices == {"su-c", "smp-c"}

TwoOps == {"merge", "zip", "combine_latest", "with_latest_from", "take_until", "skip_until", "sample", "buffer"}
(* operators that subscribe their argument before the receiver *)
ArgFirst == {"with_latest_from", "skip_until"}

Tag(port, msgs) == [i \in 1..Len(msgs) |-> <<port, msgs[i][1], msgs[i][2]>>]

(* ----------------------------------------------------------------------- *)
(* Flattening (merge_all(n) / concat_all / flatten / flat_map / concat_map)*)
(* documented semantics: at most n inner observables are subscribed, the   *)
(* others wait in arrival order; a completing inner hands its slot to the  *)
(* oldest waiting one; the output completes when the outer stream and all  *)
(* inner streams have completed; the first error ends everything.          *)
(*   z = [out, done, act : Seq([id, ast, start]), q : Seq(ast), oc, nid]   *)
(* ----------------------------------------------------------------------- *)
FlatZ0 == [out |-> <<>>, done |-> FALSE, act |-> <<>>, q |-> <<>>, oc |-> FALSE, nid |-> 0]
FlatInner(x, v) == PL(x)[(W(v) % Len(PL(x))) + 1]
RECURSIVE DropId(_, _)
DropId(act, id) == IF act = <<>> THEN <<>>
                   ELSE IF Head(act).id = id THEN Tail(act) ELSE <<Head(act)>> \o DropId(Tail(act), id)
RECURSIVE HasId(_, _)
HasId(act, id) == IF act = <<>> THEN FALSE ELSE Head(act).id = id \/ HasId(Tail(act), id)

(* most recent value of BehaviorSubject a after position k of timeline g (initial value I(9)) *)
RECURSIVE BLatest(_, _, _)
BLatest(g, k, a) == IF k = 0 THEN I(9)
                    ELSE IF g[k][1] = a + 200 /\ g[k][2] = "N" THEN g[k][3] ELSE BLatest(g, k - 1, a)

(* position of the marker "shared observable x was connected here" in g (0 if absent) *)
RECURSIVE MarkPos(_, _, _, _)
MarkPos(g, t, x, i) == IF i > Len(g) THEN 0
                       ELSE IF g[i][1] = 0 /\ g[i][2] = t /\ g[i][3] = I(x) THEN i ELSE MarkPos(g, t, x, i + 1)

RECURSIVE HasEnd(_)
HasEnd(ms) == IF ms = <<>> THEN FALSE ELSE Head(ms)[1] # "N" \/ HasEnd(Tail(ms))

RECURSIVE Ref(_, _, _, _, _), InTL(_, _, _, _, _, _), FlatEv(_, _, _, _, _, _), FlatEvs(_, _, _, _, _, _),
          FlatStart(_, _, _, _, _, _), FlatPos(_, _, _, _, _, _, _), FlatInners(_, _, _, _, _, _, _)

(* one notification ev = <<src, t, v>> (src 0 = outer stream, else the id of an inner subscription) at position k *)
FlatEv(x, z, ev, k, g, var) ==
  LET src == ev[1] t == ev[2] v == ev[3] IN
  IF z.done THEN z
  ELSE IF src = 0 THEN
    IF t = "N" THEN
      IF Len(z.act) < PA(x) THEN FlatStart(x, z, FlatInner(x, v), k, g, var)
      ELSE [z EXCEPT !.q = Append(@, FlatInner(x, v))]
    ELSE IF t = "E" THEN Finish(z, "E", v)
    ELSE IF z.act = <<>> /\ z.q = <<>> THEN Finish([z EXCEPT !.oc = TRUE], "C", U)
    ELSE [z EXCEPT !.oc = TRUE]
  ELSE IF ~HasId(z.act, src) THEN z
  ELSE IF t = "N" THEN Emit(z, v)
  ELSE IF t = "E" THEN Finish(z, "E", v)
  ELSE LET z1 == [z EXCEPT !.act = DropId(@, src)] IN
       IF z1.q # <<>> THEN FlatStart(x, [z1 EXCEPT !.q = Tail(@)], Head(z1.q), k, g, var)
       ELSE IF z1.oc /\ z1.act = <<>> THEN Finish(z1, "C", U)
       ELSE z1

FlatEvs(x, z, evs, k, g, var) ==
  IF evs = <<>> THEN z ELSE FlatEvs(x, FlatEv(x, z, Head(evs), k, g, var), Tail(evs), k, g, var)

(* subscribe inner observable `ast` at position k: what it delivers at once is processed at once *)
FlatStart(x, z, ast, k, g, var) ==
  LET id == z.nid + 1
      z1 == [z EXCEPT !.nid = id, !.act = Append(@, [id |-> id, ast |-> ast, start |-> k])]
  IN FlatEvs(x, z1, Tag(id, MsgsOf(Ref(ast, g, k, k, var))), k, g, var)

(* new notifications at position k of the inner subscriptions that existed when the position began *)
FlatInners(x, z, snap, g, k, var, dummy) ==
  IF snap = <<>> THEN z
  ELSE LET a == Head(snap)
           cur == MsgsOf(Ref(a.ast, g, a.start, k, var))
           old == MsgsOf(Ref(a.ast, g, a.start, k - 1, var))
           new == SubSeq(cur, Len(old) + 1, Len(cur))
       IN FlatInners(x, FlatEvs(x, z, Tag(a.id, new), k, g, var), Tail(snap), g, k, var, dummy)

(* positions lo .. hi of the global timeline g; the flattening was subscribed after position lo *)
FlatPos(x, z, g, lo, k, hi, var) ==
  IF k > hi THEN z
  ELSE LET cur == MsgsOf(Ref(S1(x), g, lo, k, var))
           old == IF k = lo THEN <<>> ELSE MsgsOf(Ref(S1(x), g, lo, k - 1, var))
           z1 == FlatEvs(x, z, Tag(0, SubSeq(cur, Len(old) + 1, Len(cur))), k, g, var)
           z2 == IF k = lo THEN z1 ELSE FlatInners(x, z1, z.act, g, k, var, 0)
       IN FlatPos(x, z2, g, lo, k + 1, hi, var)

(* group_by: the keys in order of first appearance, the items of one key *)
(* key function 3 is stateful (FnMut): it answers 0, 1, 0, 1, ... -- the key of an item is what the function said when it was *)
(* asked about that item, once                                                                                              *)
KeyAt(c, items, i) == IF c = 3 THEN I((i - 1) % 2) ELSE KeyF(c, items[i])
RECURSIVE KeysFrom(_, _, _, _), ItemsOfKeyFrom(_, _, _, _)
KeysFrom(c, items, i, acc) == IF i > Len(items) THEN acc
                              ELSE LET k == KeyAt(c, items, i) IN
                                   KeysFrom(c, items, i + 1, IF SeqContains(acc, k) THEN acc ELSE Append(acc, k))
KeysOf(c, items, acc) == KeysFrom(c, items, 1, acc)
ItemsOfKeyFrom(c, items, i, k) == IF i > Len(items) THEN <<>>
                                  ELSE (IF KeyAt(c, items, i) = k THEN <<items[i]>> ELSE <<>>) \o ItemsOfKeyFrom(c, items, i + 1, k)
ItemsOfKey(c, items, k) == ItemsOfKeyFrom(c, items, 1, k)

(* documented output of AST x, subscribed after position lo of the global timeline g  *)
(* (the notifications <<input, t, v>> sent into the hot inputs since the behaviour      *)
(* began), when the timeline has reached position hi                                    *)
Ref(x, g, lo, hi, var) ==
  LET o == Op(x) IN
  CASE o = "of" -> S(<<PV(x)>>, "C", U)
    [] o = "of_option" -> S(IF IsSome(PV(x)) THEN <<Unwrap(PV(x))>> ELSE <<>>, "C", U)
    [] o = "of_result" -> IF PV(x)[1] = "e" THEN S(<<>>, "E", PV(x)) ELSE S(<<Unwrap(PV(x))>>, "C", U)
    [] o = "of_fn" \/ o = "start" -> S(<<PV(x)>>, "C", U)
    [] o = "from_iter" ->        \* variant "cut<k>" (used by monitor C16): only the first k items, not yet finished
         IF PB(x) = 7 /\ \E k \in 0..Len(PL(x)) : CutName(k) \in var
         THEN S(SubSeq(PL(x), 1, CHOOSE k \in 0..Len(PL(x)) : CutName(k) \in var), "", U)
         ELSE S(PL(x), "C", U)
    [] o = "repeat" -> S([i \in 1..PA(x) |-> PV(x)], "C", U)
    [] o = "empty" -> S(<<>>, "C", U)
    [] o = "never" -> S(<<>>, "", U)
    [] o = "throw" -> S(<<>>, "E", PV(x))
    [] o = "create" -> OfMsgs(PL(x), <<>>)
    [] o = "subject" ->
         (* a subject that has terminated (or was unsubscribed) delivers nothing, not even to a new subscriber *)
         IF HasEnd(Sel(SubSeq(g, 1, lo), PA(x))) THEN S(<<>>, "", U)
         ELSE OfMsgs(Sel(SubSeq(g, lo + 1, hi), PA(x)), <<>>)
    [] o = "hotc" -> OfMsgs(Sel(SubSeq(g, lo + 1, hi), PA(x) + 100), <<>>)
    [] o = "behavior" ->
         (* the current value first, then every later item; a terminated subject delivers only the current value *)
         IF HasEnd(Sel(SubSeq(g, 1, lo), PA(x) + 200)) THEN S(<<BLatest(g, lo, PA(x))>>, "", U)
         ELSE OfMsgs(<<<<"N", BLatest(g, lo, PA(x))>>>> \o Sel(SubSeq(g, lo + 1, hi), PA(x) + 200), <<>>)
    [] o = "share" \/ o = "publish" ->
         (* multicast of the ONE subscription to the source made at the connection point c0 *)
         (* variant "fresh": this subscription makes a connection of its own (a share that reconnects after everybody left) *)
         LET c0 == IF "fresh" \in var /\ o = "share" THEN lo ELSE MarkPos(g, "S", x, 1)
             d0 == MarkPos(g, "D", x, 1)                      \* the connection was unsubscribed here (0: never)
             top == IF d0 > 0 /\ d0 < hi THEN d0 ELSE hi
             (* subscribed before the connection was made (share: the subscription that makes it) *)
             early == IF "fresh" \in var /\ o = "share" THEN TRUE ELSE IF o = "share" THEN lo <= c0 ELSE lo < c0
         IN
         IF c0 = 0 \/ c0 > hi THEN S(<<>>, "", U)
         ELSE LET all == MsgsOf(Ref(S1(x), g, c0, top, var)) IN
              IF early THEN OfMsgs(all, <<>>)
              ELSE IF lo >= top THEN S(<<>>, "", U)
              ELSE LET before == MsgsOf(Ref(S1(x), g, c0, lo, var)) IN
                   IF HasEnd(before) THEN S(<<>>, "", U)
                   ELSE OfMsgs(SubSeq(all, Len(before) + 1, Len(all)), <<>>)
    [] o \in RefUnaryOps -> RefUnary(x, Ref(S1(x), g, lo, hi, var))
    [] o \in TwoOps ->
         LET z == TwoFold(o, T0, InTL(x, g, lo, lo, hi, var), var) IN OfMsgs(z.out, <<>>)
    [] o = "group_by" ->        \* the stream of groups: one announcement G(0, key) per distinct key (group ids are not part of the contract)
         LET src == Ref(S1(x), g, lo, hi, var)
             keys == KeysOf(PA(x), src.items, <<>>) IN
         [src EXCEPT !.items = [i \in 1..Len(keys) |-> G(0, keys[i])]]
    [] o = "flat" /\ Op(S1(x)) = "group_by" -> Ref(S1(S1(x)), g, lo, hi, var)     \* merging the groups back
    [] o = "flat" /\ Op(S1(x)) # "group_by" -> OfMsgs(FlatPos(x, FlatZ0, g, lo, lo, hi, var).out, <<>>)
    [] OTHER -> S(<<>>, "", U)

(* what the two inputs of x deliver, in order: at every timeline position k the NEW   *)
(* notifications of each input (its documented output is prefix-monotone), the input  *)
(* subscribed first delivering first                                                  *)
InTL(x, g, lo, k, hi, var) ==
  IF k > hi THEN <<>>
  ELSE LET new(y) == LET cur == MsgsOf(Ref(y, g, lo, k, var))
                         old == IF k = lo THEN <<>> ELSE MsgsOf(Ref(y, g, lo, k - 1, var)) IN
                     SubSeq(cur, Len(old) + 1, Len(cur))
           a == Tag(1, new(S1(x)))
           b == Tag(2, new(S2(x)))
       IN (IF Op(x) \in ArgFirst THEN b \o a ELSE a \o b) \o InTL(x, g, lo, k + 1, hi, var)
=============================================================================
