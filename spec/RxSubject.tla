----------------------------- MODULE RxSubject ------------------------------
(***************************************************************************)
(* Subject / SubjectThreads / BehaviorSubject (src/subject.rs,             *)
(* src/subject/behavior_subject.rs).                                       *)
(*                                                                         *)
(* A subject is two cells, `observers` and `chamber`, each an              *)
(* Option<Vec<Box<dyn Publisher>>>.  Both cells are nodes of kind "pubvec" *)
(* (f = Some, q = subscriber slot nodes) so that the generic Acq/Rel       *)
(* frames apply to them.  subj[s] = [o, c, v] names the two cells and the  *)
(* BehaviorSubject value cell (0 if plain).                                *)
(***************************************************************************)
EXTENDS RxOps

ONode(st, s) == st.subj[s].o
CNode(st, s) == st.subj[s].c
VNode(st, s) == st.subj[s].v

(* allocate a subject; leaves nothing on the stacks; id = Len(subj)+1 *)
NewSubject(st, behavior, init) ==
  LET o == NextNode(st)
      pv == [Node("pubvec", 0) EXCEPT !.m = Mode(st)]
      st1 == AddNode(AddNode(st, pv), pv)
      st2 == IF behavior THEN AddNode(st1, [Node("valcell", 0) EXCEPT !.m = Mode(st), !.v = init]) ELSE st1
  IN [st2 EXCEPT !.subj = Append(@, [o |-> o, c |-> o + 1, v |-> IF behavior THEN o + 2 ELSE 0])]

(* frames of Subject::next / error / complete on subject s *)
SubjEmit(st, s, t, v) ==
  <<Acq(ONode(st, s)), F1("sload", s), Rel(ONode(st, s)),
    Acq(ONode(st, s)), Fr("sbcast", s, t, v, 0), Rel(ONode(st, s))>>

(* Publisher::p_is_closed of subscriber slot p: is_finished() || is_closed() *)
PClosed(st, p) ==
  LET nd == st.nodes[p] IN
  IF RHeld(nd) THEN 2
  ELSE IF ~nd.f THEN 1
  ELSE Fin(st, nd.d)

RECURSIVE TermFrames(_, _, _)
TermFrames(ps, t, v) ==
  IF ps = <<>> THEN <<>> ELSE <<Fr("sterm1", Head(ps), t, v, 0)>> \o TermFrames(Tail(ps), t, v)

RECURSIVE RetainList(_, _)
(* subscribers kept by retain(); <<-1>> if a query faulted *)
RetainList(st, ps) ==
  IF ps = <<>> THEN <<>>
  ELSE LET c == PClosed(st, Head(ps))
           rest == RetainList(st, Tail(ps)) IN
       IF c = 2 \/ rest = <<-1>> THEN <<-1>>
       ELSE IF c = 1 THEN rest ELSE <<Head(ps)>> \o rest

SubjectStep(st, fr) ==
  LET s == fr.n
      O == ONode(st, s)
      C == CNode(st, s)
      on == st.nodes[O]
      cn == st.nodes[C]
  IN
  CASE fr.f = "sload" ->          \* holding O
         IF on.f THEN Push(st, <<Acq(C), F1("smove", s), Rel(C)>>) ELSE st
    [] fr.f = "smove" ->          \* holding O and C
         [st EXCEPT !.nodes[O].q = on.q \o cn.q, !.nodes[C].q = <<>>]
    [] fr.f = "sbcast" ->         \* holding O
         IF ~on.f THEN st
         ELSE IF fr.t = "N" THEN Push(st, MapCalls(on.q, "N", fr.v))
         ELSE Push([st EXCEPT !.nodes[O].f = FALSE, !.nodes[O].q = <<>>],
                   TermFrames(on.q, fr.t, fr.v))
    [] fr.f = "sterm1" ->         \* filter(!p_is_closed) then p_error / p_complete
         LET c == PClosed(st, fr.n) IN
         IF c = 2 THEN Busy(st)
         ELSE IF c = 1 THEN st ELSE Push(st, <<Call(fr.n, fr.t, fr.v)>>)
    [] fr.f = "ssub" ->           \* Subject::actual_subscribe(observer fr.x); not yet holding C
         Push(st, <<Acq(C), Fr("ssub2", s, "", U, fr.x), Rel(C)>>)
    [] fr.f = "ssub2" ->          \* holding C
         LET id == NextNode(st)
             slot == [Node("slot", fr.x) EXCEPT !.m = Mode(st), !.f = cn.f]
             st1 == AddNode(st, slot)
             st2 == IF cn.f THEN [st1 EXCEPT !.nodes[C].q = Append(@, id)] ELSE st1
         IN RetSub(st2, SubRec("slot", id, 0))
    [] fr.f = "sunsub" ->         \* Subscription::unsubscribe of the subject itself
         Push(st, <<Acq(O), F2("ptake", O, 0), Rel(O), Acq(C), F2("ptake", C, 0), Rel(C)>>)
    [] fr.f = "ptake" ->
         [st EXCEPT !.nodes[fr.n].f = FALSE, !.nodes[fr.n].q = <<>>]
    [] fr.f = "squery" ->         \* x: 1 len, 2 is_empty, 3 is_finished/is_closed ; result in ret
         IF RHeld(on) THEN Busy(st)
         ELSE IF fr.x = 3 THEN [st EXCEPT !.ret = B(~on.f)]
         ELSE IF ~on.f THEN [st EXCEPT !.ret = IF fr.x = 1 THEN I(0) ELSE B(TRUE)]
         ELSE IF RHeld(cn) THEN Busy(st)
         ELSE IF fr.x = 1 THEN [st EXCEPT !.ret = I(Len(on.q) + Len(cn.q))]
         ELSE [st EXCEPT !.ret = B(on.q = <<>> /\ cn.q = <<>>)]
    [] fr.f = "sretain" ->        \* retain(): prune closed publishers of the live list
         Push(st, <<Acq(O), F1("sretain2", s), Rel(O)>>)
    [] fr.f = "sretain2" ->
         IF ~on.f THEN st
         ELSE LET keep == RetainList(st, on.q) IN
              IF keep = <<-1>> THEN Busy(st)
              ELSE [st EXCEPT !.nodes[O].q = keep]
    (* ---- BehaviorSubject ---- *)
    [] fr.f = "bnext" ->          \* store, then broadcast: two critical sections
         Push(st, <<Acq(VNode(st, s)), Fr("vset", VNode(st, s), "", fr.v, 0), Rel(VNode(st, s))>>
                  \o SubjEmit(st, s, "N", fr.v))
    [] fr.f = "vset" -> [st EXCEPT !.nodes[fr.n].v = fr.v]
    [] fr.f = "bsub" ->           \* observer.next(value) with the value guard held, then join
         Push(st, <<AcqR(VNode(st, s)), Fr("bsub2", s, "", U, fr.x), RelR(VNode(st, s)),
                    Fr("ssub", s, "", U, fr.x)>>)
    [] fr.f = "bsub2" -> Push(st, <<CallN(fr.x, st.nodes[VNode(st, s)].v)>>)
    [] fr.f = "bpeek" ->
         IF RHeld(st.nodes[VNode(st, s)]) THEN Busy(st)
         ELSE [st EXCEPT !.ret = st.nodes[VNode(st, s)].v]
    [] fr.f = "bnextby" ->        \* next_by(f): peek, then next(f(value))
         IF RHeld(st.nodes[VNode(st, s)]) THEN Busy(st)
         ELSE Push(st, <<Fr("bnext", s, "", MapF(fr.x, st.nodes[VNode(st, s)].v), 0)>>)
    [] OTHER -> Fault(st, "spec:unknown-subject-frame")

SubjectFrames == {"sload", "smove", "sbcast", "sterm1", "ssub", "ssub2", "sunsub", "ptake",
                  "squery", "sretain", "sretain2", "bnext", "vset", "bsub", "bsub2",
                  "bpeek", "bnextby"}
=============================================================================
