SPECIFICATION Spec
CONSTANT KF = {}
POSTCONDITION AllJudged
CHECK_DEADLOCK FALSE
