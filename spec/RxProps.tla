------------------------------ MODULE RxProps -------------------------------
(***************************************************************************)
(* The listed properties as monitors over OBSERVATIONS only.               *)
(*                                                                         *)
(* A monitor never looks at the machine state: it folds over the steps of  *)
(* a behaviour, each step being                                            *)
(*    [s |-> stimulus, o |-> [log, ret, fault, cnt]]                       *)
(* exactly what the Rust harness records from the real crate.  The same    *)
(* definitions are therefore evaluated (a) by TLC on every behaviour of    *)
(* the bounded model (MC_Seq) and (b) by TLC on traces recorded from the   *)
(* real crate (TraceMon).  `checks` is the set of property ids a suite     *)
(* asks for; `root` the AST the probes of "sub" stimuli are attached to.   *)
(***************************************************************************)
EXTENDS RxRef

GetB(s, i) == IF i >= 1 /\ i <= Len(s) THEN s[i] ELSE FALSE
GetI(s, i) == IF i >= 1 /\ i <= Len(s) THEN s[i] ELSE 0
RECURSIVE Pad(_, _, _)
Pad(s, n, x) == IF Len(s) >= n THEN s ELSE Pad(Append(s, x), n, x)
SetAt(s, i, x, dflt) == [Pad(s, i, dflt) EXCEPT ![i] = x]

Mon0 == [ np     |-> 0,       \* probes created so far
          term   |-> <<>>,    \* probe -> saw a terminal
          plog   |-> <<>>,    \* probe -> its notifications so far, as <<t, v>>
          ph     |-> <<>>,    \* probe -> handle it was subscribed through (0: none)
          hroot  |-> <<>>,    \* handle -> AST it subscribed
          g      |-> <<>>,    \* global timeline <<a, t, v>> of the notifications sent into the hot inputs
          h0     |-> <<>>,    \* handle -> length of g when the subscription was made
          unsubd |-> <<>>,    \* handle -> unsubscribe() has returned
          closed |-> <<>>,    \* handle -> is_closed() has answered true
          nh     |-> 0,
          bad    |-> <<>> ]   \* property ids violated by the last step

AddBad(m, id) == IF SeqContains(m.bad, id) THEN m ELSE [m EXCEPT !.bad = Append(@, id)]

RECURSIVE AddBadSeq(_, _)
AddBadSeq(m, ids) == IF ids = <<>> THEN m ELSE AddBadSeq(AddBad(m, Head(ids)), Tail(ids))
SetToSeq(ss) == LET f[T \in SUBSET ss] == IF T = {} THEN <<>> ELSE LET x == CHOOSE y \in T : TRUE IN <<x>> \o f[T \ {x}] IN f[ss]
AddBads(m, ids) == AddBadSeq(m, SetToSeq(ids))
RefProps == {"C03", "C04", "C05", "C13"}

(* --- one probe notification --- *)
LogOne(m, e, checks) ==
  LET p == e.p
      h == GetI(m.ph, p)
      m1 == IF "C01" \in checks /\ GetB(m.term, p) THEN AddBad(m, "C01") ELSE m
      m2 == IF "C02" \in checks /\ h > 0 /\ GetB(m.unsubd, h) THEN AddBad(m1, "C02") ELSE m1
      m3 == IF "C17" \in checks /\ h > 0 /\ GetB(m.closed, h) THEN AddBad(m2, "C17") ELSE m2
      m4 == [m3 EXCEPT !.plog = SetAt(@, p, Append(IF p <= Len(@) THEN @[p] ELSE <<>>, <<e.t, e.v>>), <<>>)]
      m5 == IF e.t \in {"E", "C"} THEN [m4 EXCEPT !.term = SetAt(@, p, TRUE, FALSE)] ELSE m4
      (* a group announcement creates one probe (attached from inside the callback) *)
      m6 == IF e.t = "N" /\ e.v[1] = "g" THEN [m5 EXCEPT !.np = @ + 1] ELSE m5
  IN m6

RECURSIVE LogAll(_, _, _)
LogAll(m, log, checks) == IF log = <<>> THEN m ELSE LogAll(LogOne(m, Head(log), checks), Tail(log), checks)


(* --- reference check (C03 / C13): every subscription's log equals the documented sequence --- *)
RefCheck(m) ==
  \A p \in 1..m.np :
     LET h == GetI(m.ph, p) IN
     h > 0 => LET got == IF p <= Len(m.plog) THEN m.plog[p] ELSE <<>> IN
              \/ got = MsgsOf(Ref(m.hroot[h], m.g, m.h0[h], Len(m.g), {}))
              \/ \E var \in (SUBSET AmbiguousChoices) \ {{}} : got = MsgsOf(Ref(m.hroot[h], m.g, m.h0[h], Len(m.g), var))

(* --- one step --- *)
MonStep(m0, step, checks) ==
  LET s == step.s
      o == step.o
      m == [m0 EXCEPT !.bad = <<>>]
      (* bookkeeping done BEFORE the observations of the step are judged *)
      pre ==
        CASE s.k = "sub" ->
               [m EXCEPT !.np = @ + 1, !.nh = @ + 1,
                         !.ph = SetAt(@, m.np + 1, m.nh + 1, 0),
                         !.hroot = Append(@, s.a),
                         !.h0 = Append(@, Len(m.g))]
          [] s.k = "emit" -> [m EXCEPT !.g = Append(@, <<s.a, s.t, s.v>>)]
          [] s.k = "emitc" -> [m EXCEPT !.g = Append(@, <<s.a + 100, s.t, s.v>>)]     \* `create` inputs: own id range
          [] s.k = "sunsub" -> [m EXCEPT !.g = Append(@, <<s.a, "X", U>>)]
          [] OTHER -> m
      mid == LogAll(pre, o.log, checks)
      (* bookkeeping done AFTER the call has returned *)
      post ==
        CASE s.k = "unsub" -> [mid EXCEPT !.unsubd = SetAt(@, s.a, TRUE, FALSE)]
          [] s.k = "closed" ->
               IF o.fault # "" THEN mid
               ELSE IF o.ret = B(TRUE) THEN [mid EXCEPT !.closed = SetAt(@, s.a, TRUE, FALSE)]
               ELSE IF "C17" \in checks /\ GetB(mid.closed, s.a) THEN AddBad(mid, "C17")
               ELSE mid
          [] OTHER -> mid
      (* the reference oracle decides every property whose statement is "delivers exactly the documented sequence" *)
      refIds == checks \cap RefProps
      r1 == IF refIds # {} /\ o.fault = "" /\ ~RefCheck(post) THEN AddBads(post, refIds) ELSE post
      r2 == IF "C05" \in checks /\ o.fault # "" THEN AddBad(r1, "C05") ELSE r1
  IN r2

RECURSIVE MonRun(_, _, _)
(* all property ids violated somewhere along a behaviour *)
MonRun(m, steps, checks) ==
  IF steps = <<>> THEN <<>>
  ELSE LET m1 == MonStep(m, Head(steps), checks) IN
       m1.bad \o MonRun(m1, Tail(steps), checks)
=============================================================================
