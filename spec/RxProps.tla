------------------------------ MODULE RxProps -------------------------------
(***************************************************************************)
(* The listed properties as monitors over OBSERVATIONS only.               *)
(*                                                                         *)
(* A monitor never looks at the machine state: it folds over the steps of  *)
(* a behaviour, each step being                                            *)
(*    [s |-> stimulus, o |-> [log, ret, fault, cnt]]                       *)
(* exactly what the Rust harness records from the real crate.  The same    *)
(* definitions are therefore evaluated (a) by TLC on every behaviour of    *)
(* the bounded model (MC_Seq) and (b) by TLC on traces recorded from the   *)
(* real crate (TraceMon).  C is the case record of the catalogue (module   *)
(* Gen): C.checks = the property ids the case asks for, C.nsubj / C.nbeh = *)
(* how many hot subjects exist.                                            *)
(***************************************************************************)
EXTENDS RxRef, FiniteSets

GetB(s, i) == IF i >= 1 /\ i <= Len(s) THEN s[i] ELSE FALSE
GetI(s, i) == IF i >= 1 /\ i <= Len(s) THEN s[i] ELSE 0
GetS(s, i) == IF i >= 1 /\ i <= Len(s) THEN s[i] ELSE <<>>
RECURSIVE Pad(_, _, _)
Pad(s, n, x) == IF Len(s) >= n THEN s ELSE Pad(Append(s, x), n, x)
SetAt(s, i, x, dflt) == [Pad(s, i, dflt) EXCEPT ![i] = x]
RECURSIVE CountTrue(_)
CountTrue(s) == IF s = <<>> THEN 0 ELSE (IF Head(s) THEN 1 ELSE 0) + CountTrue(Tail(s))

(* harness counter ids (tools/gen.py uses the same) *)
CntTap == 1
CntFin == 4
CntDefer == 5
CntFn == 6
CntPull == 7
CntConv == 8      \* IntoIterator::into_iter of the counting from_iter source

Mon0 == [ np     |-> 0,       \* probes created so far
          term   |-> <<>>,    \* probe -> saw a terminal
          plog   |-> <<>>,    \* probe -> its notifications so far, as <<t, v>>
          ph     |-> <<>>,    \* probe -> (virtual) handle it was subscribed through (0: none)
          pr     |-> <<>>,    \* probe -> reaction code of its callback
          pfired |-> <<>>,    \* probe -> its once-only reaction has fired
          gp     |-> <<>>,    \* group probes: <<probe, outer probe, index of the group>>
          ngrp   |-> <<>>,    \* outer probe -> number of groups announced to it
          hroot  |-> <<>>,    \* handle -> AST it subscribed
          h0     |-> <<>>,    \* handle -> length of g when the subscription was made
          hcomp  |-> <<>>,    \* handle -> composite handle it was appended to (0: none)
          hx     |-> <<>>,    \* handle -> the published AST whose connect() returned it (0: not a connection)
          hend   |-> <<>>,    \* handle -> 1 + length of g when it was unsubscribed (0: still subscribed)
          now    |-> 0,       \* virtual time (sum of the "adv" stimuli)
          gt     |-> <<>>,    \* virtual time of every timeline entry
          ht     |-> <<>>,    \* handle -> virtual time of the subscription
          pat    |-> <<>>,    \* probe -> virtual time of each of its notifications
          t9     |-> [init |-> FALSE],   \* C09: state of the timed reference automaton of the (single) subscription
          cpos   |-> <<>>,    \* C14: handle -> how many results its future / stream has yielded
          tdelay |-> <<>>,    \* C19: per scheduled task <<handle, kind, delay or period, time it was scheduled>> (task id = position)
          truns  |-> <<>>,    \* C19: task id -> how often its body ran
          tsince |-> -1,      \* C16: virtual time at which the (first) subscriber saw its terminal (-1: not yet)
          trun   |-> -1,      \* C16: time of the first run of the executor after that (-1: not yet)
          runT   |-> <<>>,    \* virtual times at which the executor ran to idle ("runall")
          g      |-> <<>>,    \* global timeline <<a, t, v>> of the notifications sent into the hot inputs
          unsubd |-> <<>>,    \* handle -> unsubscribe() has returned (or it was torn down by its composite)
          lateadd|-> <<>>,    \* handle -> it was appended to a composite that had already been unsubscribed (C17: torn down at once)
          closed |-> <<>>,    \* handle -> is_closed() has answered true
          trig   |-> <<>>,    \* handle -> a finalize trigger (terminal or unsubscribe) has happened
          sdead  |-> <<>>,    \* subject -> terminated or unsubscribed
          nh     |-> 0,       \* handles (reaction-made subscriptions get virtual ones)
          rh     |-> <<>>,    \* index used by the stimuli ("sub"/"connect"/"mnew" order) -> handle
          first  |-> <<>>,    \* C13: normalised observation of the first subscription
          lastcnt|-> Cnt0,
          connected |-> FALSE,
          bad    |-> <<>> ]   \* property ids violated by the last step

AddBad(m, id) == IF SeqContains(m.bad, id) THEN m ELSE [m EXCEPT !.bad = Append(@, id)]
RECURSIVE AddBadSeq(_, _)
AddBadSeq(m, ids) == IF ids = <<>> THEN m ELSE AddBadSeq(AddBad(m, Head(ids)), Tail(ids))
SetToSeq(ss) == LET f[T \in SUBSET ss] == IF T = {} THEN <<>> ELSE LET x == CHOOSE y \in T : TRUE IN <<x>> \o f[T \ {x}] IN f[ss]
AddBads(m, ids) == AddBadSeq(m, SetToSeq(ids))
Flag(m, cond, id, checks) == IF id \in checks /\ cond THEN AddBad(m, id) ELSE m

(* properties decided by the reference oracle: "delivers exactly the documented sequence" *)
RefProps == {"C03", "C04", "C05", "C06", "C11", "C12", "C13"}

(* a new (virtual) handle for a subscription *)
(* every subscription leaves a marker <<0, "H", I(handle)>> in the timeline, so that no two subscriptions *)
(* are made at the same timeline position                                                                *)
NewHandle(m, root) ==
  [m EXCEPT !.nh = @ + 1, !.hroot = Append(@, root), !.h0 = Append(@, Len(m.g)), !.hcomp = Append(@, 0),
            !.hx = Append(@, 0), !.ht = Append(@, m.now), !.g = Append(@, <<0, "H", I(m.nh + 1)>>)]

(* --- one probe notification --- *)
LogOne(m, e, C) ==
  IF e.t = "F" THEN m      \* the finalizer callback ran (its place in the step is judged by FinOrder)
  ELSE IF e.t = "I"      \* C16: the counting iterator source was pulled: never after the (first) subscriber has seen its terminal
  THEN Flag(Flag(m, GetB(m.term, 1), "C16", C.checks), GetB(m.term, 1), "C05", IF "C05i" \in C.checks THEN C.checks \cup {"C05"} ELSE C.checks)   \* (flattening cases carry C05 too: an unbounded source would block)
  ELSE IF e.t = "R" \/ e.t = "U"   \* C19: the body of harness task (e.p - 100) ran with sequence number e.v / its subscription was unsubscribed
  THEN LET k == e.p - 100
           td == m.tdelay[k]
           h == td[1]
           n == GetI(m.truns, k)
           ok == IF e.t = "U" THEN TRUE
                 ELSE /\ ~GetB(m.unsubd, h)                                   \* never after unsubscribe() returned
                      /\ ~GetB(m.closed, h)                                   \* a handle that reported closed cannot act any more
                      /\ e.v = I(n)                                           \* once / consecutive sequence numbers
                      /\ (td[2] # 2 => n = 0)
                      /\ e.at >= td[4] + (IF td[2] = 2 THEN td[5] + n * td[3] ELSE IF td[3] >= 0 THEN td[3] ELSE 0)   \* never early (td[5]: the first tick of a repeating task)
       IN [Flag(m, ~ok, "C19", C.checks) EXCEPT !.truns = IF e.t = "R" THEN SetAt(@, k, n + 1, 0) ELSE @]
  ELSE IF e.t = "P"      \* not a notification: what peek() answered inside the callback (C12: the most recent value)
  THEN Flag(m, e.v # BLatest(m.g, Len(m.g), PA(m.hroot[GetI(m.ph, e.p)])), "C12", C.checks)
  ELSE
  LET p == e.p
      checks == C.checks
      h == GetI(m.ph, p)
      m1 == Flag(m, GetB(m.term, p), "C01", checks)
      m2 == Flag(m1, h > 0 /\ GetB(m.unsubd, h), "C02", checks)
      (* C17, last clause, seen through a pipeline whose subscription is a composite (merge_all / flat_map ...): a   *)
      (* subscription appended after the composite was unsubscribed must be torn down at once -- if it is left running *)
      (* its notifications arrive after unsubscribe() returned (cases marked "C17late")                                *)
      m3 == Flag(Flag(m2, h > 0 /\ GetB(m.closed, h), "C17", checks),
                 h > 0 /\ (("C17late" \in checks /\ GetB(m.unsubd, h)) \/ GetB(m.lateadd, h)), "C17", checks)
      m4 == [m3 EXCEPT !.plog = SetAt(@, p, Append(GetS(@, p), <<e.t, e.v>>), <<>>),
                       !.pat = SetAt(@, p, Append(GetS(@, p), e.at), <<>>)]
      m5 == IF e.t \in {"E", "C"}
            THEN [m4 EXCEPT !.term = SetAt(@, p, TRUE, FALSE),
                            !.trig = IF h > 0 THEN SetAt(@, h, TRUE, FALSE) ELSE @]
            ELSE m4
      rc == GetI(m.pr, p)
      (* subscriptions made by the scripted reaction of the callback *)
      m6 == IF e.t # "N" THEN m5
            ELSE IF rc = 1 /\ e.v[1] = "g" THEN
              LET k == GetI(m5.ngrp, p) + 1 IN
              [m5 EXCEPT !.np = @ + 1, !.ngrp = SetAt(@, p, k, 0), !.gp = Append(@, <<m5.np + 1, p, k>>)]
            ELSE IF rc = 5 /\ ~GetB(m5.pfired, p) THEN      \* the callback sent another item into subject 1
              [m5 EXCEPT !.g = Append(@, <<1, "N", I(W(e.v) + 10)>>), !.pfired = SetAt(@, p, TRUE, FALSE)]
            ELSE IF rc = 6 /\ ~GetB(m5.pfired, p) THEN      \* the callback sent an item into subject 2
              [m5 EXCEPT !.g = Append(@, <<2, "N", I(W(e.v) + 20)>>), !.pfired = SetAt(@, p, TRUE, FALSE)]
            ELSE IF (rc = 2 /\ ~GetB(m5.pfired, p)) \/ rc = 3 THEN
              LET mh == NewHandle(m5, m5.hroot[h]) IN
              [mh EXCEPT !.np = @ + 1, !.ph = SetAt(@, m5.np + 1, mh.nh, 0), !.pfired = SetAt(@, p, TRUE, FALSE)]
            ELSE m5
  IN m6

RECURSIVE LogAll(_, _, _)
LogAll(m, log, C) == IF log = <<>> THEN m ELSE LogAll(LogOne(m, Head(log), C), Tail(log), C)

(* --- reference check: every subscription's log equals the documented sequence --- *)
(* the AST index of the share / publish operator in the chain below x (0 if none) *)
RECURSIVE ShareIn(_)
ShareIn(x) == IF x = 0 THEN 0
              ELSE IF Op(x) \in {"share", "publish"} THEN x
              ELSE IF Op(x) \in RefUnaryOps THEN ShareIn(S1(x)) ELSE 0

(* share(): a subscriber that joins after EVERY earlier subscriber of the shared observable has left may be served by the   *)
(* old connection (the pinned code keeps it -- finding F13) or by a connection of its own (what a repair of F13 would do):  *)
(* both references are accepted for such a subscription, nothing else                                                       *)
AfterAllLeft(m, h) ==
  LET sx == ShareIn(m.hroot[h])
      prev == {i \in 1..(h - 1) : m.hroot[i] > 0 /\ ShareIn(m.hroot[i]) = sx} IN
  /\ sx > 0 /\ Op(sx) = "share" /\ prev # {}
  /\ \A i \in prev : GetI(m.hend, i) > 0 /\ m.hend[i] <= m.h0[h] + 1

RefCheck(m) ==
  \A p \in 1..m.np :
     LET h == GetI(m.ph, p) IN
     (h > 0 /\ m.hroot[h] > 0 /\ Op(m.hroot[h]) # "group_by") =>
        LET got == GetS(m.plog, p)
            (* an unsubscribed subscription receives what was documented up to the unsubscription *)
            hi == IF GetI(m.hend, h) > 0 THEN m.hend[h] - 1 ELSE Len(m.g) IN
        \/ got = MsgsOf(Ref(m.hroot[h], m.g, m.h0[h], hi, {}))
        \/ \E var \in (SUBSET AmbiguousChoices) \ {{}} : got = MsgsOf(Ref(m.hroot[h], m.g, m.h0[h], hi, var))
        \/ (AfterAllLeft(m, h) /\ got = MsgsOf(Ref(m.hroot[h], m.g, m.h0[h], hi, {"fresh"})))

(* --- group_by (C20): one group per key in first-appearance order, every item to exactly its group --- *)
TermMsgs(s) == IF s.term = "C" THEN <<<<"C", U>>>> ELSE IF s.term = "E" THEN <<<<"E", s.ev>>>> ELSE <<>>

(* the group_by node a stream-of-groups AST is built on (0: none) *)
RECURSIVE GroupNode(_)
GroupNode(x) == IF x = 0 THEN 0
                ELSE IF Op(x) = "group_by" THEN x
                ELSE IF Op(x) \in {"take", "skip", "take_until"} THEN GroupNode(S1(x)) ELSE 0
NoSid(msgs) == [i \in 1..Len(msgs) |-> IF msgs[i][1] = "N" /\ msgs[i][2][1] = "g" THEN <<"N", G(0, msgs[i][2][3])>> ELSE msgs[i]]
RECURSIVE NthItem(_, _)
NthItem(msgs, k) == IF msgs = <<>> THEN U
                    ELSE IF Head(msgs)[1] = "N" THEN (IF k = 1 THEN Head(msgs)[2] ELSE NthItem(Tail(msgs), k - 1))
                    ELSE NthItem(Tail(msgs), k)

GroupCheck(m, C) ==
  \A p \in 1..m.np :
     LET h == GetI(m.ph, p)
         x == IF h > 0 THEN m.hroot[h] ELSE 0
         hi == IF h > 0 /\ GetI(m.hend, h) > 0 THEN m.hend[h] - 1 ELSE Len(m.g)
     IN
     /\ (x > 0 /\ GroupNode(x) > 0) =>
        (* the stream of groups (possibly below take / skip / take_until): one announcement per distinct key, in order of *)
        (* first appearance, as documented for the operators above it; every group announced to a subscriber that       *)
        (* attaches at once receives every source item of its key, in order, and the source's terminal -- whether or    *)
        (* not the stream of groups itself has finished meanwhile                                                       *)
        LET gx == GroupNode(x)
            src == Ref(S1(gx), m.g, m.h0[h], hi, {})
            outer == Ref(x, m.g, m.h0[h], hi, {})
        IN /\ NoSid(GetS(m.plog, p)) = MsgsOf(outer)
           /\ \A j \in 1..Len(m.gp) :
                 m.gp[j][2] = p =>
                    LET gv == NthItem(GetS(m.plog, p), m.gp[j][3]) IN
                    /\ gv # U
                    /\ GetS(m.plog, m.gp[j][1]) = NMsgs(ItemsOfKey(PA(gx), src.items, gv[3])) \o TermMsgs(src)
     (* flattening the groups back reproduces the source sequence *)
     /\ (x > 0 /\ Op(x) = "flat" /\ Op(S1(x)) = "group_by" /\ PA(x) = 999) =>
        GetS(m.plog, p) = MsgsOf(Ref(S1(S1(x)), m.g, m.h0[h], hi, {}))

(* the delays configured along a single-input chain *)
RECURSIVE DelaySum(_)
DelaySum(x) == IF x = 0 THEN 0 ELSE (IF Op(x) = "delay" THEN PA(x) ELSE 0) + DelaySum(S1(x))

(* the source at the bottom of a single-input chain; does the chain contain operator o *)
RECURSIVE BottomOf(_), NumOp(_, _)
BottomOf(x) == IF S1(x) = 0 THEN x ELSE BottomOf(S1(x))
NumOp(x, o) == IF x = 0 THEN 0 ELSE (IF Op(x) = o THEN 1 ELSE 0) + NumOp(S1(x), o)

(* --- C07: scheduler-moving operators preserve the source's sequence and never deliver early --- *)
MovingOps == {"delay", "observe_on", "delay_subscription", "subscribe_on"}
RECURSIVE ItemsOf(_)
ItemsOf(msgs) == IF msgs = <<>> THEN <<>> ELSE (IF Head(msgs)[1] = "N" THEN <<Head(msgs)[2]>> ELSE <<>>) \o ItemsOf(Tail(msgs))
TermOf(msgs) == IF msgs # <<>> /\ msgs[Len(msgs)][1] # "N" THEN msgs[Len(msgs)][1] ELSE ""
IsPrefixSeq(a, b) == Len(a) <= Len(b) /\ a = SubSeq(b, 1, Len(a))
IsInfix(a, b) == \E i \in 0..(Len(b) - Len(a)) : a = SubSeq(b, i + 1, i + Len(a))
RECURSIVE FirstPos(_, _, _, _, _)
(* the first timeline position k >= lo at which the documented output of y holds at least i items *)
FirstPos(y, g, lo, k, i) ==
  IF k > Len(g) THEN Len(g) + 1
  ELSE IF Len(Ref(y, g, lo, k, {}).items) >= i THEN k ELSE FirstPos(y, g, lo, k + 1, i)

C07Check(m, o, C) ==
  \A p \in 1..m.np :
     LET h == GetI(m.ph, p) IN
     (h > 0 /\ m.hroot[h] > 0 /\ Op(m.hroot[h]) \in MovingOps) =>
       LET x == m.hroot[h]
           op == Op(x)
           hi == IF GetI(m.hend, h) > 0 THEN m.hend[h] - 1 ELSE Len(m.g)
           ref == Ref(S1(x), m.g, m.h0[h], hi, {})
           got == GetS(m.plog, p)
           gotN == ItemsOf(got)
           gt == TermOf(got)
           at == GetS(m.pat, p)
           anyorder == "anyorder" \in C.checks /\ "F4" \in KF
           cold == Op(S1(x)) \notin {"subject", "hotc"}
           delayed == op \in {"delay", "observe_on"}
           d == IF op = "delay" \/ op = "delay_subscription" THEN PA(x) ELSE 0
           (* the time at which the i-th source item was produced *)
           srcT(i) == LET k == FirstPos(S1(x), m.g, m.h0[h], m.h0[h], i) IN
                      IF k <= m.h0[h] + 1 THEN m.ht[h] ELSE m.gt[k]
       IN /\ (* order: a prefix of the source's items (a contiguous run of them for a delayed subscription to a hot source) *)
             anyorder \/ (IF delayed \/ cold THEN IsPrefixSeq(gotN, ref.items) ELSE IsInfix(gotN, ref.items))
          /\ (* the terminal is the source's, completion only after every item *)
             gt # "" => (anyorder \/ (gt = ref.term /\ (gt = "C" /\ (delayed \/ cold) => Len(gotN) = Len(ref.items))))
          /\ (* everything has been delivered once the executor holds no task any more *)
             (o.live = 0 /\ (delayed \/ cold) /\ GetI(m.hend, h) = 0 /\ ~anyorder) =>
                 (IF ref.term = "E" THEN gt = "E" ELSE got = MsgsOf(ref))
          /\ (* never early *)
             \A i \in 1..Len(gotN) :
                IF op = "delay_subscription" THEN at[i] >= m.ht[h] + d
                ELSE IF op = "delay" /\ ~anyorder THEN at[i] >= srcT(i) + d
                ELSE TRUE

(* --- C09: rate limiting.  Timed reference automata of debounce / throttle / buffer_with_time /          *)
(* buffer_with_count_and_time for a subscription `subject(1).op(..)`, under the harness executor: tasks   *)
(* are polled only by "runall" (all unfinished tasks in creation order until idle); the delay timer of a   *)
(* one-shot task is armed when the task is first polled, the period timer of the buffers when the task is *)
(* built.  T9Step returns the new automaton state and the notifications documented for this stimulus.     *)
RateOps == {"debounce", "throttle", "buffer_time", "buffer_count_time"}
(* sample(notifier = interval(period)) is one more of them: a = the sampler's period *)
Is9(x) == Op(x) \in RateOps \/ (Op(x) = "sample" /\ Op(S2(x)) = "interval" /\ PB(S2(x)) < 0)
T9Init(x, now) == [init |-> TRUE, op |-> Op(x), a |-> IF Op(x) = "sample" THEN PA(S2(x)) ELSE PA(x), b |-> PB(x), pend |-> NoneV, tk |-> "none", dl |-> 0, d |-> 0,
                   buf |-> <<>>, fur |-> now + (IF Op(x) = "buffer_time" THEN PA(x) ELSE IF Op(x) = "sample" THEN PA(S2(x)) ELSE PB(x)),
                   done |-> FALSE, out |-> <<>>]
Out9(z, t, v) == [z EXCEPT !.out = Append(@, <<t, v>>)]
RECURSIVE T9Run(_, _)
(* one sweep of the executor at time now, repeated until nothing is runnable *)
T9Run(z, now) ==
  IF z.op \in {"debounce", "throttle"} THEN
    IF z.tk = "new" THEN T9Run([z EXCEPT !.tk = "armed", !.dl = now + z.d], now)
    ELSE IF z.tk = "armed" /\ now >= z.dl THEN
      (IF IsSome(z.pend) /\ ~z.done THEN Out9([z EXCEPT !.tk = "none", !.pend = NoneV], "N", Unwrap(z.pend))
       ELSE [z EXCEPT !.tk = "none", !.pend = NoneV])
    ELSE z
  ELSE IF z.op = "sample" THEN      \* one tick of the sampler per period: the latest item not yet sampled, if any
    IF ~z.done /\ now >= z.fur THEN
      LET z1 == IF IsSome(z.pend) THEN Out9([z EXCEPT !.pend = NoneV], "N", Unwrap(z.pend)) ELSE z IN
      T9Run([z1 EXCEPT !.fur = now + z.a], now)
    ELSE z
  ELSE (* the buffers: one tick per period *)
    IF ~z.done /\ now >= z.fur THEN
      LET z1 == IF z.buf # <<>> THEN Out9([z EXCEPT !.buf = <<>>], "N", L(z.buf)) ELSE z IN
      T9Run([z1 EXCEPT !.fur = now + (IF z.op = "buffer_time" THEN z.a ELSE z.b)], now)
    ELSE z

(* completion: what is pending is released, then the completion *)
T9Complete(z) ==
  IF z.op = "sample" THEN Out9(z, "C", U)        \* what was not sampled yet is dropped
  ELSE IF z.op \in {"debounce", "throttle"}
  THEN Out9((IF IsSome(z.pend) THEN Out9([z EXCEPT !.pend = NoneV, !.tk = IF z.op = "throttle" THEN "none" ELSE z.tk], "N", Unwrap(z.pend))
             ELSE [z EXCEPT !.tk = IF z.op = "throttle" THEN "none" ELSE z.tk]), "C", U)
  ELSE Out9((IF z.buf # <<>> THEN Out9([z EXCEPT !.buf = <<>>], "N", L(z.buf)) ELSE z), "C", U)

T9Step(z0, s, now) ==
  LET z == [z0 EXCEPT !.out = <<>>] IN
  IF s.k = "runall" THEN T9Run(z, now)
  ELSE IF s.k # "emit" \/ z.done THEN z
  ELSE IF s.t = "E" THEN Out9([z EXCEPT !.done = TRUE], "E", s.v)
  ELSE IF s.t = "C" THEN [T9Complete(z) EXCEPT !.done = TRUE]
  ELSE
  CASE z.op = "sample" -> [z EXCEPT !.pend = SomeV(s.v)]
    [] z.op = "debounce" ->
         IF s.t = "N" THEN [z EXCEPT !.pend = SomeV(s.v), !.tk = "new", !.d = z.a]        \* the previous task is cancelled
         ELSE Out9((IF IsSome(z.pend) THEN Out9([z EXCEPT !.pend = NoneV], "N", Unwrap(z.pend)) ELSE z), "C", U)
    [] z.op = "throttle" ->     \* a = window (0: by selector), b = edge: 1 leading, 2 trailing, 3 both
         IF s.t = "N" THEN
           IF z.tk = "none"     \* no window open: this item opens one
           THEN LET z1 == [z EXCEPT !.tk = "new", !.d = IF z.a > 0 THEN z.a ELSE (W(s.v) % 2) + 1] IN
                IF z.b \in {1, 3} THEN Out9(z1, "N", s.v)          \* leading edge: the opener is emitted now, not again later
                ELSE [z1 EXCEPT !.pend = SomeV(s.v)]
           ELSE IF z.b \in {2, 3} THEN [z EXCEPT !.pend = SomeV(s.v)] ELSE z
         ELSE Out9((IF IsSome(z.pend) THEN Out9([z EXCEPT !.pend = NoneV, !.tk = "none"], "N", Unwrap(z.pend)) ELSE [z EXCEPT !.tk = "none"]), "C", U)
    [] OTHER ->                 \* buffers; buffer_count_time: a = count
         IF s.t = "N" THEN
           LET b1 == Append(z.buf, s.v) IN
           IF z.op = "buffer_count_time" /\ Len(b1) >= z.a THEN Out9([z EXCEPT !.buf = <<>>], "N", L(b1)) ELSE [z EXCEPT !.buf = b1]
         ELSE Out9((IF z.buf # <<>> THEN Out9([z EXCEPT !.buf = <<>>], "N", L(z.buf)) ELSE z), "C", U)

(* --- C16: how many items an iterator source has to be pulled for, at most --- *)
RECURSIVE PullSrc(_)
(* the counting iterator source (counter CntPull) somewhere below x (0 if there is none) *)
PullSrc(x) == IF x <= 0 THEN 0
              ELSE IF Op(x) = "from_iter" THEN (IF PB(x) = CntPull THEN x ELSE 0)
              ELSE LET a == IF S1(x) > 0 THEN PullSrc(S1(x)) ELSE 0 IN
                   IF a > 0 THEN a ELSE IF S2(x) > 0 THEN PullSrc(S2(x)) ELSE 0
RECURSIVE MinPulls(_, _)
(* the shortest prefix of the counting iterator after which the documented output of the pipeline has terminated *)
MinPulls(x, k) ==
  IF k >= Len(PL(PullSrc(x))) THEN Len(PL(PullSrc(x)))
  ELSE IF Ref(x, <<>>, 0, 0, {CutName(k)}).term # "" THEN k ELSE MinPulls(x, k + 1)

(* --- C08: time and async sources emit exactly what and when they promise --- *)
TimeSources == {"interval", "timer", "from_future", "from_stream"}
C08Check(m, o) ==
  \A p \in 1..m.np :
     LET h == GetI(m.ph, p) IN
     (h > 0 /\ m.hroot[h] > 0 /\ Op(m.hroot[h]) \in TimeSources) =>
       LET x == m.hroot[h]
           op == Op(x)
           got == GetS(m.plog, p)
           gotN == ItemsOf(got)
           at == GetS(m.pat, p)
           t0 == m.ht[h]
           live == GetI(m.hend, h) = 0
           ranAt(t) == \E i \in 1..Len(m.runT) : m.runT[i] = t
       IN
       CASE op = "interval" ->
              LET per == PA(x)
                  d0 == IF PB(x) >= 0 THEN PB(x) ELSE per       \* first tick: at the given instant / one period after subscription
                  due(i) == IF i = 1 THEN t0 + d0 ELSE at[i - 1] + per IN
              /\ TermOf(got) = ""
              /\ \A i \in 1..Len(gotN) :
                    /\ gotN[i] = I(i - 1)                      \* consecutive integers from 0
                    /\ at[i] >= due(i)                         \* never early
                    /\ (ranAt(due(i)) /\ (PB(x) < 0 \/ ranAt(t0))) => at[i] = due(i)      \* on time when the executor is
              (* a tick that is due and was given the chance to fire has fired *)
              /\ (live /\ ranAt(due(Len(gotN) + 1)) /\ (PB(x) < 0 \/ ranAt(t0))) => m.now < due(Len(gotN) + 1)
         [] op = "timer" ->
              /\ IsPrefixSeq(got, <<<<"N", PV(x)>>, <<"C", U>>>>)
              /\ (got # <<>> => at[1] >= t0 + PA(x))
              /\ (live /\ o.live = 0) => Len(got) = 2
         [] op = "from_future" ->
              LET scr == Sel(m.g, PA(x) + 400)
                  want == IF scr = <<>> THEN <<>> ELSE IF scr[1][1] = "E" THEN <<scr[1]>> ELSE <<<<"N", scr[1][2]>>, <<"C", U>>>> IN
              /\ IsPrefixSeq(got, want)
              /\ (live /\ o.live = 0) => got = want
         [] op = "from_stream" ->
              LET want == MsgsOf(OfMsgs(Sel(m.g, PA(x) + 300), <<>>)) IN
              /\ IsPrefixSeq(got, want)
              /\ (live /\ o.live = 0) => got = want
         [] OTHER -> TRUE

(* --- one step --- *)
MonStep(m0, step, C) ==
  LET s == step.s
      o == step.o
      checks == C.checks
      m == [m0 EXCEPT !.bad = <<>>]
      (* bookkeeping done BEFORE the observations of the step are judged *)
      pre ==
        CASE s.k = "sub" ->
               LET sh == ShareIn(s.a)
                   (* the first subscription of a shared observable connects it: marker in the timeline *)
                   mk == IF sh > 0 /\ Op(sh) = "share" /\ ~m.connected
                         THEN [m EXCEPT !.g = Append(@, <<0, "S", I(sh)>>), !.connected = TRUE] ELSE m
                   mh == NewHandle(mk, s.a) IN
               [mh EXCEPT !.np = @ + 1, !.rh = Append(@, mh.nh),
                          !.ph = SetAt(@, mk.np + 1, mh.nh, 0), !.pr = SetAt(@, mk.np + 1, s.b, 0)]
          [] s.k = "connect" ->
               LET mk == [m EXCEPT !.g = Append(@, <<0, "S", I(s.a)>>), !.connected = TRUE]
                   mh == NewHandle(mk, 0) IN
               [mh EXCEPT !.rh = Append(@, mh.nh), !.hx[mh.nh] = s.a]
          [] s.k = "tsched" ->      \* a task handle; hroot = -(10 + kind)
               LET mh == NewHandle(m, -10 - s.a) IN
               [mh EXCEPT !.rh = Append(@, mh.nh), !.tdelay = Append(@, <<mh.nh, s.a, s.b, m.now, IF s.v[1] = "i" THEN W(s.v) ELSE s.b>>)]
          [] s.k = "mretain" -> m            \* MultiSubscription::retain(): changes nothing an observer can see
          [] s.k = "mnew" ->
               LET mh == NewHandle(m, -1) IN [mh EXCEPT !.rh = Append(@, mh.nh)]      \* root -1: a bare composite
          [] s.k = "adv" -> [m EXCEPT !.now = @ + s.a]
          [] s.k = "runall" -> [m EXCEPT !.runT = Append(@, m.now)]
          [] s.k = "spush" -> [m EXCEPT !.g = Append(@, <<s.a + 300, s.t, s.v>>)]       \* scripted streams: own id range
          [] s.k = "fresolve" -> [m EXCEPT !.g = Append(@, <<s.a + 400, s.t, s.v>>)]    \* scripted futures
          [] s.k = "emit" -> [m EXCEPT !.g = Append(@, <<s.a, s.t, s.v>>)]
          [] s.k = "emitc" -> [m EXCEPT !.g = Append(@, <<s.a + 100, s.t, s.v>>)]     \* `create` inputs: own id range
          [] s.k = "sunsub" -> [m EXCEPT !.g = Append(@, <<s.a, "X", U>>)]
          [] s.k = "bnext" -> [m EXCEPT !.g = Append(@, <<s.a + 200, "N", s.v>>)]     \* BehaviorSubject inputs: own id range
          [] s.k = "bnextby" -> [m EXCEPT !.g = Append(@, <<s.a + 200, "N", MapF(s.b, BLatest(m.g, Len(m.g), s.a))>>)]
          [] s.k = "bterm" -> [m EXCEPT !.g = Append(@, <<s.a + 200, s.t, s.v>>)]
          [] s.k = "bsunsub" -> [m EXCEPT !.g = Append(@, <<s.a + 200, "X", U>>)]      \* the BehaviorSubject itself was unsubscribed: silence
          [] OTHER -> m
      mid == LogAll(pre, o.log, C)
      H(a) == mid.rh[a]            \* the handle a stimulus names
      (* bookkeeping done AFTER the call has returned *)
      post ==
        CASE s.k = "unsub" ->
               LET h == H(s.a) IN
               [mid EXCEPT !.g = IF mid.hx[h] > 0 THEN Append(@, <<0, "D", I(mid.hx[h])>>) ELSE @,   \* the connection was cut
                           !.hend = [i \in 1..mid.nh |-> IF GetI(mid.hend, i) = 0 /\ (i = h \/ GetI(mid.hcomp, i) = h)
                                                        THEN Len(mid.g) + 1 ELSE GetI(mid.hend, i)],
                           !.unsubd = [i \in 1..mid.nh |-> GetB(mid.unsubd, i) \/ i = h \/ GetI(mid.hcomp, i) = h],
                           !.trig = [i \in 1..mid.nh |-> GetB(mid.trig, i) \/ i = h \/ GetI(mid.hcomp, i) = h]]
          [] s.k = "mappend" ->      \* child handle b joins composite a; a composite already torn down must tear the child down at once
               LET c == H(s.b) IN
               [mid EXCEPT !.hcomp = SetAt(@, c, H(s.a), 0),
                           !.hend = IF GetB(mid.unsubd, H(s.a)) /\ GetI(mid.hend, c) = 0 THEN SetAt(@, c, Len(mid.g) + 1, 0) ELSE @,
                           !.unsubd = IF GetB(mid.unsubd, H(s.a)) THEN SetAt(@, c, TRUE, FALSE) ELSE @,
                           !.lateadd = IF GetB(mid.unsubd, H(s.a)) THEN SetAt(@, c, TRUE, FALSE) ELSE @]
          [] s.k \in {"closed", "mclosed"} ->      \* mclosed: asked through a handle that remains after unsubscribe()
               IF o.fault # "" THEN mid
               ELSE IF o.ret = B(TRUE) THEN [mid EXCEPT !.closed = SetAt(@, H(s.a), TRUE, FALSE)]
               (* known finding F17: a bare composite answers "closed" while it is empty / all its children are   *)
               (* closed, and "not closed" again after a later append                                           *)
               ELSE Flag(mid, (GetB(mid.closed, H(s.a)) /\ ~("F17" \in KF /\ mid.hroot[H(s.a)] = -1))
                              \/ GetB(mid.unsubd, H(s.a)), "C17", checks)
          [] s.k = "emit" /\ s.t # "N" -> [mid EXCEPT !.sdead = SetAt(@, s.a, TRUE, FALSE)]
          [] s.k = "sunsub" -> [mid EXCEPT !.sdead = SetAt(@, s.a, TRUE, FALSE)]
          [] OTHER -> mid
      (* the reference oracle *)
      refIds == checks \cap RefProps
      r1 == IF refIds # {} /\ o.fault = "" /\ ~RefCheck(post) THEN AddBads(post, refIds) ELSE post
      (* "C05f": a case whose delivered sequence has no reference (an inner that is itself shared), judged for "without panicking or blocking" only *)
      r2 == Flag(r1, o.fault # "", "C05", IF "C05f" \in checks THEN checks \cup {"C05"} ELSE checks)
      r3 == Flag(r2, "C20" \in checks /\ o.fault = "" /\ ~GroupCheck(r2, C), "C20", checks)
      (* C06: a subject that has terminated or was unsubscribed reports itself finished and empty *)
      r4 == Flag(r3, s.k = "squery" /\ o.fault = "" /\ GetB(r3.sdead, s.a)
                       /\ o.ret # (IF s.b = 1 THEN I(0) ELSE B(TRUE)), "C06", checks)
      (* C12: peek() is the most recent value *)
      r5 == Flag(r4, s.k = "bpeek" /\ o.fault = "" /\ o.ret # BLatest(r4.g, Len(r4.g), s.a), "C12", checks)
      (* C15: the finalizer has run exactly once per subscription that was completed, failed or unsubscribed *)
      r6a == Flag(r5, o.fault = "" /\ o.cnt[CntFin] # CountTrue(r5.trig), "C15", checks)
      (* ... right after the event, never before it: when a terminal triggers it, the subscriber has seen that terminal first *)
      (* (the suites of C15 have finalize as the outermost operator; the callback leaves an "F" entry in the common log)      *)
      nTermBefore(i) == Cardinality({j \in 1..(i - 1) : o.log[j].p > 0 /\ o.log[j].t \in {"E", "C"}})
      nFinUpTo(i) == Cardinality({j \in 1..i : o.log[j].t = "F"})
      r6 == Flag(r6a, s.k # "unsub" /\ \E i \in 1..Len(o.log) : o.log[i].t = "F" /\ nTermBefore(i) < nFinUpTo(i), "C15", checks)
      (* C13: building does no work; every subscription of a cold pipeline observes the same *)
      norm == [i \in 1..Len(o.log) |-> <<IF o.log[i].p = 0 THEN 0 ELSE o.log[i].p - m.np, o.log[i].t, o.log[i].v>>]
      delta == [i \in 1..NCnt |-> o.cnt[i] - m.lastcnt[i]]
      r7 == IF "C13" \notin checks \/ o.fault # "" THEN r6
            ELSE IF s.k = "build" THEN Flag(r6, o.log # <<>> \/ o.cnt # Cnt0, "C13", checks)
            ELSE IF s.k = "sub" /\ s.b = 0 THEN
              (* exactly once per subscription: the closure of of_fn / start / defer is called, the counting from_iter source is converted *)
              LET src == BottomOf(s.a)
                  once == /\ (Op(src) \in {"of_fn", "start"} => delta[CntFn] = 1)
                          /\ (Op(src) = "from_iter" /\ PB(src) = 7 => delta[CntConv] = 1)
                          /\ delta[CntDefer] = NumOp(s.a, "defer")
                  r6o == Flag(r6, ~once, "C13", checks) IN
              (IF r6o.first = <<>> THEN [r6o EXCEPT !.first = <<norm, delta>>]
               ELSE Flag(r6o, r6o.first # <<norm, delta>>, "C13", checks))
            ELSE r6
      (* C11: publish does not subscribe its source before connect(); share subscribes it exactly once *)
      r8 == Flag(r7, o.fault = "" /\ ((~r7.connected /\ o.cnt[CntDefer] # 0) \/ (r7.connected /\ o.cnt[CntDefer] # 1)), "C11", checks)
      (* C11: once the last subscriber of a shared observable has left, its source is no longer driven       *)
      (* (observed through the tap counter upstream of share); known finding F13                             *)
      subsOf == {h \in 1..m.nh : m.hroot[h] > 0 /\ ShareIn(m.hroot[h]) > 0 /\ Op(ShareIn(m.hroot[h])) = "share"}
      allLeft == subsOf # {} /\ \A h \in subsOf : GetI(m.hend, h) > 0
      r9 == Flag(r8, "F13" \notin KF /\ s.k \in {"emit", "emitc"} /\ o.fault = "" /\ allLeft
                     /\ o.cnt[CntTap] > m.lastcnt[CntTap], "C11", checks)
      r10 == Flag(r9, "C07" \in checks /\ o.fault = "" /\ ~C07Check([r9 EXCEPT !.gt = Pad(@, Len(r9.g), m.now)], o, C), "C07", checks)
      (* C09: the rate-limiting operator delivers exactly what its timed reference says, when it says *)
      is9 == "C09" \in checks /\ r10.nh >= 1 /\ r10.hroot[1] > 0 /\ Is9(r10.hroot[1])
      z9 == IF ~is9 THEN m.t9
            ELSE LET zz == IF m.t9.init THEN m.t9 ELSE T9Init(r10.hroot[1], r10.ht[1]) IN
                 IF GetI(r10.hend, 1) > 0 THEN [zz EXCEPT !.out = <<>>] ELSE T9Step(zz, s, r10.now)
      log9 == SelectSeq(o.log, LAMBDA e : e.p = 1)         \* (what the first subscription received; others may exist beside it)
      got9 == [i \in 1..Len(log9) |-> <<log9[i].t, log9[i].v>>]
      r10b == [Flag(r10, is9 /\ o.fault = "" /\ GetI(m.hend, 1) = 0 /\ s.k # "unsub"
                         /\ (got9 # z9.out \/ \E i \in 1..Len(log9) : log9[i].at # r10.now), "C09", checks) EXCEPT !.t9 = z9]
      (* C16: once the subscriber has seen its terminal, every producer feeding it retires: after one more      *)
      (* period (all periods are 1 in the suite) has elapsed and the executor has run to idle no task is left  *)
      (* (iterator sources: see LogOne, no pull after the terminal)                                            *)
      term1 == GetB(r10b.term, 1)
      ts == IF m.tsince >= 0 THEN m.tsince ELSE IF term1 THEN r10b.now ELSE -1
      (* (deliveries that a delay operator of the chain had already scheduled are tasks too; the timer of a one-shot task is   *)
      (* armed when the task is first polled: such chains are given their delay, counted from the first run of the executor   *)
      (* at or after the terminal)                                                                                              *)
      dsum == IF r10b.nh >= 1 /\ r10b.hroot[1] > 0 THEN DelaySum(r10b.hroot[1]) ELSE 0
      due == IF dsum = 0 THEN m.tsince >= 0 /\ r10b.now >= m.tsince + 1
             ELSE m.trun >= 0 /\ r10b.now >= m.trun + dsum
      r10c == [Flag(r10b, o.fault = "" /\ s.k = "runall" /\ due /\ o.live # 0, "C16", checks)
               EXCEPT !.tsince = ts, !.trun = IF m.trun < 0 /\ s.k = "runall" /\ ts >= 0 THEN r10b.now ELSE m.trun]
      (* C14: conversions report the real outcome and do not stay pending once the source has terminated *)
      is14 == "C14" \in checks /\ o.fault = "" /\ s.k \in {"fpoll", "stq"}
      h14 == IF s.k = "fpoll" THEN r10c.rh[s.a] ELSE 1
      x14 == r10c.hroot[h14]
      src14 == Ref(S1(x14), r10c.g, r10c.h0[h14], Len(r10c.g), {})
      n14 == GetI(m.cpos, h14)
      futExp == IF src14.term = "" THEN {NoneV}
                ELSE IF src14.term = "C"
                THEN {IF src14.items = <<>> THEN <<"empty">> ELSE IF Len(src14.items) = 1 THEN SomeV(src14.items[1]) ELSE <<"multi">>}
                ELSE IF src14.items = <<>> THEN {src14.ev} ELSE {src14.ev, <<"multi">>}     \* AMBIGUOUS.md: items, then an error
      strSeq == [i \in 1..Len(src14.items) |-> SomeV(src14.items[i])]
                \o (IF src14.term = "E" THEN <<src14.ev, <<"end">>>> ELSE IF src14.term = "C" THEN <<<<"end">>>> ELSE <<>>)
      ok14 == IF s.k = "stq" THEN o.ret = I(IF src14.term = "C" THEN 1 ELSE IF src14.term = "E" THEN 2 ELSE 0)
              ELSE IF Op(x14) = "to_future" THEN (IF n14 > 0 THEN TRUE ELSE o.ret \in futExp)
              ELSE IF n14 < Len(strSeq) THEN o.ret = strSeq[n14 + 1] ELSE o.ret = NoneV
      r10d == [Flag(r10c, is14 /\ ~ok14, "C14", checks)
               EXCEPT !.cpos = IF is14 /\ s.k = "fpoll" /\ o.ret # NoneV THEN SetAt(@, h14, n14 + 1, 0) ELSE @]
      (* C13 (hot pipelines): two subscriptions of clones made back to back observe the same, also in time *)
      r10e == IF "twin" \in checks /\ o.fault = "" /\ r10d.np >= 2 /\ GetI(r10d.hend, 1) = 0 /\ GetI(r10d.hend, 2) = 0
                 /\ (GetS(r10d.plog, 1) # GetS(r10d.plog, 2) \/ GetS(r10d.pat, 1) # GetS(r10d.pat, 2))
              THEN AddBad(r10d, "C13") ELSE r10d
      (* C13 for from_future: every subscription polls the future to its result itself (the scripted future counts the  *)
      (* times it yields its result): as many results yielded as there are subscribers that have been served           *)
      served == Cardinality({p \in 1..r10e.np : GetS(r10e.plog, p) # <<>>})
      r10f == IF "twinfut" \in checks /\ o.fault = "" /\ o.cnt[CntFn] # served THEN AddBad(r10e, "C13") ELSE r10e
      r11 == Flag(r10f, "C08" \in checks /\ o.fault = "" /\ ~C08Check(r10, o), "C08", checks)
  IN [r11 EXCEPT !.lastcnt = o.cnt, !.gt = Pad(@, Len(r11.g), m.now)]

RECURSIVE MonRun(_, _, _)
(* all property ids violated somewhere along a behaviour *)
MonRun(m, steps, C) ==
  IF steps = <<>> THEN <<>>
  ELSE LET m1 == MonStep(m, Head(steps), C) IN
       m1.bad \o MonRun(m1, Tail(steps), C)
=============================================================================
