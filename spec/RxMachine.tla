----------------------------- MODULE RxMachine ------------------------------
(***************************************************************************)
(* The abstract machine: Step executes the top frame, Run iterates to      *)
(* completion, Exec injects one stimulus (one API call of the user) and    *)
(* runs it -- one TLC transition of the sequential suites, one line of a   *)
(* recorded trace.                                                         *)
(*                                                                         *)
(* SubStep mirrors every `actual_subscribe` of the crate: which observer   *)
(* objects and cells are created, in which order the inputs are            *)
(* subscribed, which subscription value is returned.                       *)
(***************************************************************************)
EXTENDS RxSched

(* ------------------------------------------------------------------------*)
(* Delivery of a notification to a node                                    *)
(* ------------------------------------------------------------------------*)
(* src/ops/complete_status.rs, StatusFuture::poll after the flag was found clear: register the waker *)
(* ... and look at the flag again: if it was set meanwhile the park that follows is skipped             *)
StatusRegister(st, n) ==
  IF st.nodes[n].n # 0 THEN [st EXCEPT !.nodes[n].g = TRUE, !.stack = Tail(@)]       \* drop the "stpark" frame: Ready
  ELSE [st EXCEPT !.nodes[n].g = TRUE]

(* poll of an empty channel: Pending, also when the channel has ended (both poll functions map None to Pending) *)
PollEmpty(nd) == NoneV

(* src/ops/future.rs, src/ops/stream.rs: what the observers do with the source's error *)
FutError(st, n) == [st EXCEPT !.nodes[n].q = Append(@, st.nodes[n].v), !.nodes[n].g = TRUE]   \* finish(): send what was recorded, close
StreamError(st, n) == [st EXCEPT !.nodes[n].q = Append(@, <<"end">>), !.nodes[n].g = TRUE]    \* the error item, then the end marker

RECURSIVE GroupTerm(_, _, _, _)
GroupTerm(st, sids, t, v) ==
  IF sids = <<>> THEN <<>> ELSE SubjEmit(st, Head(sids), t, v) \o GroupTerm(st, Tail(sids), t, v)

CallStep(st, fr) ==
  LET n == fr.n
      nd == st.nodes[n]
      k == nd.k
      t == fr.t
      v == fr.v
      d == nd.d
      term == t = "E" \/ t = "C"
  IN
  CASE k = "probe" /\ st.conc ->    \* multi-threaded instance: the callback contains a yield point of the harness,
                                     \* so that two threads inside one callback are observable; entries carry the thread
         Push(st, <<F1("pin", n), F0("yield"), Fr("plog", n, t, v, 0), F1("pout", n)>>)
    [] k = "probe" ->
         LET st1 == [st EXCEPT !.log = Append(@, LogEntry(nd.a, t, v, st.now))]
             pid == st1.nprobe + 1
             pn == NextNode(st1)
             newprobe(rb) == AddNode([st1 EXCEPT !.nprobe = pid], [Node("probe", 0) EXCEPT !.a = pid, !.b = rb])
         IN
         IF nd.b = 1 /\ t = "N" /\ v[1] = "g"      \* reaction 1: attach a fresh probe to the announced group
         THEN Push(newprobe(0), <<Fr("ssub", v[2], "", U, pn), F0("dropv")>>)
         ELSE IF nd.b = 2 /\ t = "N" /\ ~nd.g       \* reaction 2: on the first item subscribe the same pipeline (AST c) again
         THEN Push([newprobe(0) EXCEPT !.nodes[n].g = TRUE], <<Sub(nd.c, pn), F0("dropv")>>)
         ELSE IF nd.b = 3 /\ t = "N"                \* reaction 3: on every item subscribe a fresh probe to the same pipeline
         THEN Push(newprobe(0), <<Sub(nd.c, pn), F0("dropv")>>)
         ELSE IF nd.b = 5 /\ t = "N" /\ ~nd.g       \* reaction 5: on the first item send one more item into hot subject 1 (a feedback loop)
         THEN Push([st1 EXCEPT !.nodes[n].g = TRUE], SubjEmit(st1, 1, "N", I(W(v) + 10)))
         ELSE IF nd.b = 6 /\ t = "N" /\ ~nd.g       \* reaction 6: on the first item send an item into hot subject 2 (e.g. the notifier)
         THEN Push([st1 EXCEPT !.nodes[n].g = TRUE], SubjEmit(st1, 2, "N", I(W(v) + 20)))
         ELSE IF nd.b = 4 /\ t = "N"                \* reaction 4: peek() the BehaviorSubject from inside the callback, record what it says
         THEN LET vn == VNode(st1, PA(nd.c)) IN
              IF RHeld(st1.nodes[vn]) THEN Busy(st1)
              ELSE [st1 EXCEPT !.log = Append(@, LogEntry(nd.a, "P", st1.nodes[vn].v, st.now))]
         ELSE st1
    [] k \in UnaryKinds ->
         IF nd.dead THEN Fault(st, "spec:call-after-move")
         ELSE LET r == Unary(nd, t, v)
                  nd1 == IF term THEN [r.nd EXCEPT !.dead = TRUE] ELSE r.nd
              IN Push([st EXCEPT !.nodes[n] = nd1], r.out)
    [] k \in CellKinds -> Push(st, <<Acq(n), Body(n, t, v), Rel(n)>>)
    (* ---- with_latest_from ---- *)
    [] k = "wlfB" ->
         IF t = "N" THEN Push(st, <<Acq(nd.c), Fr("vset", nd.c, "", SomeV(v), 0), Rel(nd.c)>>)
         ELSE IF t = "E" THEN Push(st, <<CallE(d, v)>>) ELSE st
    [] k = "wlfA" ->
         IF t = "N" THEN
           IF RHeld(st.nodes[nd.c]) THEN Busy(st)
           ELSE IF IsSome(st.nodes[nd.c].v) THEN Push(st, <<CallN(d, P(v, Unwrap(st.nodes[nd.c].v)))>>)
           ELSE st
         ELSE Push(st, <<Call(d, t, v)>>)
    (* ---- take_until / skip_until ---- *)
    [] k = "tuN" -> IF t = "N" THEN Push(st, <<CallC(d)>>) ELSE st
    [] k = "suS" ->
         IF t = "N" THEN (IF st.nodes[nd.c].f THEN st ELSE Push(st, <<CallN(d, v)>>))
         ELSE Push(st, <<Call(d, t, v)>>)
    [] k = "suN" -> IF t = "E" THEN st ELSE [st EXCEPT !.nodes[nd.c].f = FALSE]
    (* ---- sample ---- *)
    [] k = "smpSrc" ->
         IF t = "N" THEN Push(st, <<Acq(nd.c), Fr("vset", nd.c, "", SomeV(v), 0), Rel(nd.c)>>)
         ELSE Push(st, <<Call(d, t, v)>>)
    [] k = "smpN" ->
         IF t = "E" THEN Push(st, <<CallE(d, v)>>)
         ELSE Push(st, <<Acq(nd.c), F1("smptake", n), Rel(nd.c)>>)
    (* ---- buffer(notifier) ---- *)
    [] k = "bufN" ->
         IF t = "N" THEN Push(st, <<Acq(d), Body(d, "flush", U), Rel(d)>>)
         ELSE Push(st, <<Call(d, t, v)>>)
    (* ---- merge_all ---- *)
    [] k = "mallOut" ->
         IF t = "N" THEN Push(st, <<Acq(d), Fr("mallOutN", d, "", v, 0)>>)
         ELSE IF t = "E" THEN Push(st, <<Acq(d), Fr("mallE", d, "", v, 0), Rel(d)>>)
         ELSE Push(st, <<Acq(d), F1("mallOutC", d), Rel(d)>>)
    [] k = "mallIn" ->
         IF t = "N" THEN Push(st, <<Acq(d), Fr("mallInN", d, "", v, 0), Rel(d)>>)
         ELSE IF t = "E" THEN Push(st, <<Acq(d), Fr("mallE", d, "", v, 0), Rel(d)>>)
         ELSE Push(st, <<Acq(d), F1("mallInC", d)>>)      \* releases the cell itself
    (* ---- group_by ---- *)
    [] k = "group_by" ->          \* q = keys, q2 = subject ids
         IF nd.dead THEN Fault(st, "spec:call-after-move")
         ELSE IF t = "N" THEN
           LET key == IF nd.a = 3 THEN I(nd.n % 2) ELSE KeyF(nd.a, v)      \* key function 3 is stateful: 0, 1, 0, 1, ... (n = items seen)
               idx == IndexOf(nd.q, key)
               st0 == [st EXCEPT !.nodes[n].n = @ + 1] IN
           IF idx = 0 THEN
             LET st1 == NewSubject(st0, FALSE, U)
                 sid == Len(st1.subj)
                 st2 == [st1 EXCEPT !.nodes[n].q = Append(@, key), !.nodes[n].q2 = Append(@, sid)]
             IN Push(st2, <<CallN(d, G(sid, key))>> \o SubjEmit(st2, sid, "N", v))
           ELSE Push(st0, SubjEmit(st0, nd.q2[idx], "N", v))
         ELSE Push([st EXCEPT !.nodes[n].dead = TRUE], GroupTerm(st, nd.q2, t, v) \o <<Call(d, t, v)>>)
    (* ---- finalize ---- *)
    [] k = "finobs" ->
         IF nd.dead THEN Fault(st, "spec:call-after-move")
         ELSE IF t = "N" THEN Push(st, <<CallN(d, v)>>)
         ELSE Push([st EXCEPT !.nodes[n].dead = TRUE],
                   <<Call(d, t, v), Acq(nd.c), F1("fincall", nd.c), Rel(nd.c)>>)
    (* ---- a Subject used as the observer of a source (publish/connect, share) ---- *)
    [] k = "subjobs" -> Push(st, SubjEmit(st, nd.c, t, v))
    (* ---- to_future / to_stream: the observer end of an unbounded channel (q = messages in flight, g = closed) ---- *)
    [] k = "futobs" ->           \* v = last_value: NoneV | SomeV(item) | Er(..) the source's error | <<"multi">>
         IF t = "C" THEN          \* send the last value (or Empty), close the channel
           [st EXCEPT !.nodes[n].q = Append(@, IF nd.v = NoneV THEN <<"empty">> ELSE nd.v), !.nodes[n].g = TRUE]
         ELSE LET x == IF t = "N" THEN SomeV(v) ELSE v
                  st1 == [st EXCEPT !.nodes[n].v = IF nd.v = NoneV THEN x ELSE <<"multi">>] IN
              IF t = "E" THEN FutError(st1, n) ELSE st1
    [] k = "strobs" ->
         IF t = "N" THEN [st EXCEPT !.nodes[n].q = Append(@, SomeV(v))]
         ELSE IF t = "E" THEN StreamError([st EXCEPT !.nodes[n].q = Append(@, v)], n)
         ELSE [st EXCEPT !.nodes[n].q = Append(@, <<"end">>), !.nodes[n].g = TRUE]
    [] k \in SchedObserverKinds -> SchedCall(st, fr)
    [] OTHER -> Fault(st, "spec:unknown-node-kind")

(* ------------------------------------------------------------------------*)
(* merge_all data cell                                                     *)
(* ------------------------------------------------------------------------*)
InnerOf(flatAst, v) == PL(flatAst)[(W(v) % Len(PL(flatAst))) + 1]

MallStep(st, fr) ==
  LET D == fr.n nd == st.nodes[D] IN
  CASE fr.f = "mallOutN" ->      \* holding D
         IF ~nd.f THEN Push(st, <<Rel(D)>>)
         ELSE IF nd.n < nd.a
         THEN Push([st EXCEPT !.nodes[D].n = @ + 1], <<Rel(D), Fr("mallSubInner", D, "", fr.v, 0)>>)
         ELSE Push([st EXCEPT !.nodes[D].q = Append(@, fr.v)], <<Rel(D)>>)
    [] fr.f = "mallSubInner" ->  \* value.actual_subscribe(InnerObserver); subscription.append(..)
         LET inn == NextNode(st)
             st1 == AddNode(st, Node("mallIn", D)) IN
         IF fr.v[1] = "g"        \* the item is a group announced by group_by: subscribe its subject
         THEN Push(st1, <<Fr("ssub", fr.v[2], "", U, inn), F1("mappendv", nd.c)>>)
         ELSE Push(st1, <<Sub(InnerOf(nd.b, fr.v), inn), F1("mappendv", nd.c)>>)
    [] fr.f = "mallE" ->
         IF nd.f THEN Push([st EXCEPT !.nodes[D].f = FALSE], <<CallE(nd.d, fr.v)>>) ELSE st
    [] fr.f = "mallOutC" ->
         IF ~nd.f THEN st
         ELSE IF nd.n = 0 /\ nd.q = <<>>
         THEN Push([st EXCEPT !.nodes[D].g = TRUE, !.nodes[D].f = FALSE], <<CallC(nd.d)>>)
         ELSE [st EXCEPT !.nodes[D].g = TRUE]
    [] fr.f = "mallInN" -> IF nd.f THEN Push(st, <<CallN(nd.d, fr.v)>>) ELSE st
    [] fr.f = "mallInC" ->       \* holding D: hand the slot to the next queued inner (after releasing D) or count down
         IF ~nd.f THEN Push(st, <<Rel(D)>>)
         ELSE IF nd.q # <<>>
         THEN Push([st EXCEPT !.nodes[D].q = Tail(@)], <<Rel(D), Fr("mallSubInner", D, "", Head(nd.q), 0)>>)
         ELSE IF nd.n - 1 = 0 /\ nd.g
         THEN Push([st EXCEPT !.nodes[D].n = @ - 1, !.nodes[D].f = FALSE], <<CallC(nd.d), Rel(D)>>)
         ELSE Push([st EXCEPT !.nodes[D].n = @ - 1], <<Rel(D)>>)
    [] OTHER -> Fault(st, "spec:unknown-mall-frame")

MallFrames == {"mallOutN", "mallSubInner", "mallE", "mallOutC", "mallInN", "mallInC"}

(* ------------------------------------------------------------------------*)
(* actual_subscribe                                                        *)
(* ------------------------------------------------------------------------*)
(* src/observable/trivial.rs: what NeverObservable::actual_subscribe does *)
NeverFrames(n) == <<>>       \* the observer is dropped without being called

RECURSIVE ScriptCalls(_, _)
ScriptCalls(n, ms) == IF ms = <<>> THEN <<>> ELSE <<Call(n, Head(ms)[1], Head(ms)[2])>> \o ScriptCalls(n, Tail(ms))

RECURSIVE IterCalls(_, _, _)
IterCalls(n, c, vs) ==
  IF vs = <<>> THEN <<>>
  ELSE (IF c > 0 THEN <<Bump(c)>> ELSE <<>>) \o <<CallN(n, Head(vs))>> \o IterCalls(n, c, Tail(vs))

RepeatSeq(v, k) == [i \in 1..k |-> v]

(* a unary node for AST x (kind k) in front of downstream n *)
UNode(x, k, n) ==
  LET base == [Node(k, n) EXCEPT !.a = PA(x), !.b = PB(x), !.v = PV(x)] IN
  CASE k = "skip_last" -> [base EXCEPT !.n = PA(x)]
    [] k = "last" -> [base EXCEPT !.v = NoneV]
    [] k \in {"duc", "dukc", "pairwise"} -> [base EXCEPT !.v2 = NoneV]
    [] k = "collect" -> [base EXCEPT !.q = PL(x)]        \* collect_into(collection): the items are added to what it holds
    [] OTHER -> base

(* chain of nodes (outermost first) for the derived operators; each element *)
(* is a node whose d is filled in when allocated                            *)
Derived(x) ==
  LET o == Op(x) N0 == Node("x", 0) IN
  CASE o = "first" -> <<[N0 EXCEPT !.k = "take", !.a = 1]>>
    [] o = "first_or" -> <<[N0 EXCEPT !.k = "default_if_empty", !.v = PV(x)], [N0 EXCEPT !.k = "take", !.a = 1]>>
    [] o = "last_or" -> <<[N0 EXCEPT !.k = "default_if_empty", !.v = PV(x)], [N0 EXCEPT !.k = "last", !.v = NoneV]>>
    [] o = "element_at" -> <<[N0 EXCEPT !.k = "take", !.a = 1], [N0 EXCEPT !.k = "skip", !.a = PA(x)]>>
    [] o = "ignore_elements" -> <<[N0 EXCEPT !.k = "filter", !.a = 0]>>
    [] o = "all" -> <<[N0 EXCEPT !.k = "default_if_empty", !.v = B(TRUE)], [N0 EXCEPT !.k = "take", !.a = 1],
                      [N0 EXCEPT !.k = "filter", !.a = 4], [N0 EXCEPT !.k = "map", !.a = 10 + PA(x)]>>
    [] o = "reduce_initial" -> <<[N0 EXCEPT !.k = "default_if_empty", !.v = PV(x)], [N0 EXCEPT !.k = "last", !.v = NoneV],
                                 [N0 EXCEPT !.k = "scan", !.a = PA(x), !.v = PV(x)]>>
    [] o = "sum" -> <<[N0 EXCEPT !.k = "default_if_empty", !.v = I(0)], [N0 EXCEPT !.k = "last", !.v = NoneV],
                      [N0 EXCEPT !.k = "scan", !.a = 1, !.v = I(0)]>>
    [] o = "count" -> <<[N0 EXCEPT !.k = "default_if_empty", !.v = I(0)], [N0 EXCEPT !.k = "last", !.v = NoneV],
                        [N0 EXCEPT !.k = "scan", !.a = 2, !.v = I(0)]>>
    [] o = "max" -> <<[N0 EXCEPT !.k = "map", !.a = 5], [N0 EXCEPT !.k = "last", !.v = NoneV],
                      [N0 EXCEPT !.k = "scan", !.a = 4, !.v = NoneV]>>
    [] o = "min" -> <<[N0 EXCEPT !.k = "map", !.a = 5], [N0 EXCEPT !.k = "last", !.v = NoneV],
                      [N0 EXCEPT !.k = "scan", !.a = 5, !.v = NoneV]>>
    [] o = "average" -> <<[N0 EXCEPT !.k = "map", !.a = 6], [N0 EXCEPT !.k = "last", !.v = NoneV],
                          [N0 EXCEPT !.k = "scan", !.a = 6, !.v = P(I(0), I(0))]>>
    [] OTHER -> <<>>

DerivedOps == {"first", "first_or", "last_or", "element_at", "ignore_elements", "all",
               "reduce_initial", "sum", "count", "max", "min", "average"}

RECURSIVE AddChain(_, _, _)
(* allocate the nodes of a derived operator; returns the state; the innermost node is the last allocated *)
AddChain(st, chain, down) ==
  IF chain = <<>> THEN st
  ELSE AddChain(AddNode(st, [Head(chain) EXCEPT !.d = down]), Tail(chain), NextNode(st))

SubStep(st, fr) ==
  LET x == fr.x          \* AST index
      n == fr.n          \* downstream observer node
      o == Op(x)
      id == NextNode(st)
      md == Mode(st)
  IN
  CASE o \in UnaryKinds \ {"status"} ->
         Push(AddNode(st, UNode(x, o, n)), <<Sub(S1(x), id)>>)
    [] o \in DerivedOps ->
         LET st1 == AddChain(st, Derived(x), n) IN
         Push(st1, <<Sub(S1(x), Len(st1.nodes))>>)
    (* ---------------- cold synchronous sources ---------------- *)
    [] o = "of" -> Push(st, <<CallN(n, PV(x)), CallC(n), F1("retsub", 0)>>)
    [] o = "of_option" ->
         Push(st, (IF IsSome(PV(x)) THEN <<CallN(n, Unwrap(PV(x)))>> ELSE <<>>) \o <<CallC(n), F1("retsub", 0)>>)
    [] o = "of_result" ->
         Push(st, (IF PV(x)[1] = "e" THEN <<CallE(n, PV(x))>> ELSE <<CallN(n, Unwrap(PV(x))), CallC(n)>>)
                  \o <<F1("retsub", 0)>>)
    [] o = "of_fn" \/ o = "start" ->
         Push(st, (IF PB(x) > 0 THEN <<Bump(PB(x))>> ELSE <<>>) \o <<CallN(n, PV(x)), CallC(n), F1("retsub", 0)>>)
    [] o = "from_iter" \/ o = "repeat" ->    \* the counting source (b = 7) also counts its conversion into an iterator: at subscription
         Push(st, (IF o = "from_iter" /\ PB(x) = 7 THEN <<Bump(8)>> ELSE <<>>) \o <<Fr("iter", n, "", I(1), x), F1("retsub", 0)>>)
    [] o = "empty" -> Push(st, <<CallC(n), F1("retsub", 0)>>)
    [] o = "never" -> Push(st, NeverFrames(n) \o <<F1("retsub", 0)>>)
    [] o = "throw" -> Push(st, <<CallE(n, PV(x)), F1("retsub", 0)>>)
    [] o = "create" ->           \* closure emits the script PL(x) through (clones of) the subscriber
         LET slot == [Node("slot", n) EXCEPT !.m = md] IN
         Push(RetSub(AddNode(st, slot), SubRec("slot", id, 0)), ScriptCalls(id, PL(x)))
    [] o = "defer" -> Push(st, (IF PB(x) > 0 THEN <<Bump(PB(x))>> ELSE <<>>) \o <<Sub(S1(x), n)>>)
    (* ---------------- hot inputs ---------------- *)
    [] o = "subject" -> Push(st, <<Fr("ssub", PA(x), "", U, n)>>)
    [] o = "behavior" -> Push(st, <<Fr("bsub", PA(x), "", U, n)>>)
    [] o = "hotc" ->             \* create(): the harness closure stashes the subscriber of input a
         LET slot == [Node("slot", n) EXCEPT !.m = md] IN
         RetSub([AddNode(st, slot) EXCEPT !.hots[PA(x)] = Append(@, id)], SubRec("slot", id, 0))
    (* ---------------- two-input operators ---------------- *)
    [] o = "merge" ->
         Push(AddNode(st, [Node("merge", n) EXCEPT !.m = md]),
              <<Sub(S1(x), id), Sub(S2(x), id), F0("mkzip")>>)
    [] o = "zip" ->
         LET st1 == AddNode(AddNode(AddNode(st, [Node("zip", n) EXCEPT !.m = md]),
                                    Node("zipA", id)), Node("zipB", id)) IN
         Push(st1, <<Sub(S1(x), id + 1), Sub(S2(x), id + 2), F0("mkzip")>>)
    [] o = "combine_latest" ->
         LET st1 == AddNode(AddNode(AddNode(st, [Node("clatest", n) EXCEPT !.m = md, !.a = PA(x), !.v = NoneV, !.v2 = NoneV]),
                                    Node("clA", id)), Node("clB", id)) IN
         Push(st1, <<Sub(S1(x), id + 1), Sub(S2(x), id + 2), F0("mkzip")>>)
    [] o = "with_latest_from" ->  \* cells: value id, slot id+1; from is subscribed first
         LET st1 == AddNode(AddNode(AddNode(AddNode(st,
                      [Node("valcell", 0) EXCEPT !.m = md, !.v = NoneV]),
                      [Node("slot", n) EXCEPT !.m = md]),
                      [Node("wlfB", id + 1) EXCEPT !.c = id]),
                      [Node("wlfA", id + 1) EXCEPT !.c = id]) IN
         Push(st1, <<Sub(S2(x), id + 2), Sub(S1(x), id + 3), F0("mkzipr")>>)
    [] o = "take_until" ->        \* source first (directly into the shared slot), then the notifier
         LET st1 == AddNode(AddNode(st, [Node("slot", n) EXCEPT !.m = md]), Node("tuN", id)) IN
         Push(st1, <<Sub(S1(x), id), Sub(S2(x), id + 1), F0("mkzip")>>)
    [] o = "skip_until" ->        \* notifier first
         LET st1 == AddNode(AddNode(AddNode(AddNode(st,
                      [Node("slot", n) EXCEPT !.m = md]),
                      Node("flag", 0)),
                      [Node("suN", id) EXCEPT !.c = id + 1]),
                      [Node("suS", id) EXCEPT !.c = id + 1]) IN
         Push(st1, <<Sub(S2(x), id + 2), Sub(S1(x), id + 3), F0("mkzipr")>>)
    [] o = "sample" ->
         LET st1 == AddNode(AddNode(AddNode(AddNode(st,
                      [Node("valcell", 0) EXCEPT !.m = md, !.v = NoneV]),
                      [Node("slot", n) EXCEPT !.m = md]),
                      [Node("smpSrc", id + 1) EXCEPT !.c = id]),
                      [Node("smpN", id + 1) EXCEPT !.c = id]) IN
         Push(st1, <<Sub(S1(x), id + 2), Sub(S2(x), id + 3), F0("mkzip")>>)
    [] o = "buffer" ->            \* MutArc in both forms
         LET st1 == AddNode(AddNode(st, [Node("bufcell", n) EXCEPT !.m = "arc"]), Node("bufN", id)) IN
         Push(st1, <<Sub(S1(x), id), Sub(S2(x), id + 1), F0("mkzip")>>)
    (* ---------------- higher order ---------------- *)
    [] o = "flat" ->              \* map(f).merge_all(a): multicell id, data cell id+1, outside observer id+2
         LET st1 == AddNode(AddNode(AddNode(st,
                      [Node("multicell", 0) EXCEPT !.m = md]),
                      [Node("mall", n) EXCEPT !.m = md, !.a = PA(x), !.b = x, !.c = id, !.n = 0]),
                      Node("mallOut", id + 1))
             st2 == AddSub(st1, SubRec("multi", id, 0))
             sid == Len(st2.subs) IN
         Push(st2, <<Sub(S1(x), id + 2), F1("mappendv", id), F1("retsub", sid)>>)
    [] o = "group_by" ->
         Push(AddNode(st, [Node("group_by", n) EXCEPT !.a = PA(x)]), <<Sub(S1(x), id)>>)
    [] o = "start_with" -> Push(st, CallNs(n, PL(x)) \o <<Sub(S1(x), n)>>)
    [] o = "finalize" ->          \* callback cell id, observer id+1
         LET st1 == AddNode(AddNode(st, [Node("fincell", 0) EXCEPT !.m = md, !.b = PB(x), !.a = PA(x), !.v = PV(x)]),
                            [Node("finobs", n) EXCEPT !.c = id]) IN
         Push(st1, <<Sub(S1(x), id + 1), F1("mkfin", id)>>)
    [] o = "to_future" \/ o = "to_stream" ->     \* subscribe the channel observer; the subscription is dropped
         LET st1 == AddNode(st, [Node(IF o = "to_future" THEN "futobs" ELSE "strobs", 0) EXCEPT !.v = NoneV, !.g = FALSE])
             st2 == AddSub(st1, SubRec("conv", id, 0)) IN
         Push(st2, <<Sub(S1(x), id), F0("dropv"), F1("retsub", Len(st2.subs))>>)
    [] o = "status" ->
         LET st1 == AddNode(AddNode(st, [Node("statcell", 0) EXCEPT !.g = FALSE]), [Node("status", n) EXCEPT !.c = id])
             st2 == [st1 EXCEPT !.statcells = Append(@, id)] IN
         Push(st2, <<Sub(S1(x), id + 1)>>)
    [] o = "share" ->             \* ShareOp: one cell per built operator value (AST x); share2 releases it
         LET cell == st.shared[x] IN
         Push(st, <<Acq(cell), Fr("share2", cell, "", U, x), F1("pushn", n)>>)
    [] o = "publish" ->           \* ConnectableObservable::actual_subscribe = subscribe its subject
         Push(st, <<Fr("ssub", st.nodes[st.shared[x]].n, "", U, n)>>)
    [] o \in SchedOps -> SchedSub(st, fr)
    [] OTHER -> Fault(st, "spec:unknown-op")

(* ------------------------------------------------------------------------*)
(* One machine step                                                        *)
(* ------------------------------------------------------------------------*)
Step(st) ==
  LET fr == Head(st.stack)
      s0 == [st EXCEPT !.stack = Tail(@)]
      f == fr.f
  IN
  CASE f = "call" -> CallStep(s0, fr)
    (* A thread that finds a cell held by ANOTHER thread is never stepped here (MC_Conc disables it);  *)
    (* finding it held by itself is the BorrowMutError / self-deadlock of re-entrant use.               *)
    [] f = "acq" ->
         IF WHeld(s0.nodes[fr.n]) THEN Fault(s0, "reentry")
         ELSE [s0 EXCEPT !.nodes[fr.n].h = s0.cur]
    [] f = "rel" -> [s0 EXCEPT !.nodes[fr.n].h = 0]
    [] f = "acqr" ->             \* rc_deref(): a shared borrow of a RefCell, a plain lock of a Mutex
         IF RHeld(s0.nodes[fr.n]) THEN Fault(s0, "reentry")
         ELSE IF s0.nodes[fr.n].m = "arc" THEN [s0 EXCEPT !.nodes[fr.n].h = s0.cur]
         ELSE [s0 EXCEPT !.nodes[fr.n].r = @ + 1]
    [] f = "relr" ->
         IF s0.nodes[fr.n].m = "arc" THEN [s0 EXCEPT !.nodes[fr.n].h = 0]
         ELSE [s0 EXCEPT !.nodes[fr.n].r = @ - 1]
    [] f = "yield" -> s0         \* a scheduling point of the multi-threaded instance, nothing else
    [] f = "pin" ->              \* a thread enters the callback of probe node n
         [s0 EXCEPT !.nodes[fr.n].n = @ + 1, !.overlap = @ \/ s0.nodes[fr.n].n > 0]
    [] f = "pout" -> [s0 EXCEPT !.nodes[fr.n].n = @ - 1]
    [] f = "plog" ->             \* the callback proper; reaction 1 (also in the multi-threaded instance): attach a probe to an announced group
         LET nd == s0.nodes[fr.n]
             st1 == [s0 EXCEPT !.log = Append(@, LogEntry(nd.a, fr.t, fr.v, s0.cur))] IN
         IF nd.b = 1 /\ fr.t = "N" /\ fr.v[1] = "g"
         THEN LET pid == st1.nprobe + 1
                  pn == NextNode(st1)
                  st2 == AddNode([st1 EXCEPT !.nprobe = pid, !.pcre = Append(@, <<st1.cur, st1.callno>>)], [Node("probe", 0) EXCEPT !.a = pid])
              IN Push(st2, <<Fr("ssub", fr.v[2], "", U, pn), F0("dropv")>>)
         ELSE st1
    [] f = "body" -> CellBody(s0, fr.n, fr.t, fr.v)
    [] f = "bump" -> [s0 EXCEPT !.cnt[fr.x] = @ + 1]
    [] f = "sub" -> SubStep(s0, fr)
    [] f = "smptake" ->           \* sampler tick, holding the value cell
         LET nd == s0.nodes[fr.n] vc == s0.nodes[nd.c] IN
         IF IsSome(vc.v) THEN Push([s0 EXCEPT !.nodes[nd.c].v = NoneV], <<CallN(nd.d, Unwrap(vc.v))>>) ELSE s0
    [] f = "iter" ->              \* ObservableIter: while !observer.is_finished() { pull one item, deliver it }; complete
         LET items == IF Op(fr.x) = "repeat" THEN RepeatSeq(PV(fr.x), PA(fr.x)) ELSE PL(fr.x)
             i == fr.v[2]
             fin == Fin(s0, fr.n) IN
         IF fin = 2 THEN Busy(s0)
         ELSE IF fin = 1 \/ i > Len(items) THEN Push(s0, <<CallC(fr.n)>>)
         ELSE Push(s0, (IF PB(fr.x) > 0 THEN <<Bump(PB(fr.x))>> ELSE <<>>)
                       \o (IF PB(fr.x) = 7 THEN <<Fr("pulled", 0, "", I(i), 0)>> ELSE <<>>)       \* the counting iterator of the harness
                       \o <<CallN(fr.n, items[i]), Fr("iter", fr.n, "", I(i + 1), fr.x)>>)
    [] f = "pulled" -> [s0 EXCEPT !.log = Append(@, LogEntry(0, "I", fr.v, s0.now))]
    (* CompleteStatus (statcell node: n = flag, g = a waker is registered, b = a wake-up is pending) *)
    [] f = "setstatus" ->         \* flag.store(..); waker.wake(): wakes only a waker that is registered
         [s0 EXCEPT !.nodes[fr.n].n = fr.x, !.nodes[fr.n].b = IF s0.nodes[fr.n].g THEN 1 ELSE @, !.nodes[fr.n].g = FALSE]
    [] f = "stpoll" ->            \* StatusFuture::poll: check the flag, then (yield point) register the waker, then park
         IF s0.nodes[fr.n].n # 0 THEN s0
         ELSE Push(s0, <<F0("yield"), F1("streg", fr.n), F1("stpark", fr.n)>>)
    [] f = "streg" -> StatusRegister(s0, fr.n)
    [] f = "stpark" ->            \* block_on: parked until woken, then poll again (MC_Conc disables the thread while b = 0)
         IF s0.nodes[fr.n].b = 0 THEN Fault(s0, "hang")
         ELSE Push([s0 EXCEPT !.nodes[fr.n].b = 0], <<F1("stpoll", fr.n)>>)
    [] f = "share2" ->            \* holding the share cell (node fr.n: g = connected, n = subject); next frame carries the observer
         LET cell == s0.nodes[fr.n]
             obsn == s0.stack[1].n
             rest == [s0 EXCEPT !.stack = Tail(@)] IN
         IF cell.g
         THEN Push(rest, <<Fr("ssub", cell.n, "", U, obsn), F1("mkrefcnt", cell.n), Rel(fr.n)>>)
         ELSE LET st1 == NewSubject(rest, FALSE, U)
                  sid == Len(st1.subj)
                  on == NextNode(st1)
                  st2 == AddNode([st1 EXCEPT !.nodes[fr.n].g = TRUE, !.nodes[fr.n].n = sid], [Node("subjobs", 0) EXCEPT !.c = sid])
              IN (* the first subscriber joins the subject, the cell is released, THEN the subject is connected to the  *)
                 (* source (which may emit at once and lead back to this very observable); the subscription connect()  *)
                 (* returns is dropped                                                                                 *)
                 Push(st2, <<Fr("ssub", sid, "", U, obsn), Rel(fr.n), Sub(S1(fr.x), on), F0("dropv"), F1("mkrefcnt", sid)>>)
    [] f = "pushn" -> s0          \* operand of share2
    [] f = "connect" ->           \* ConnectableObservable::connect(): subscribe the subject (as an observer) to the source
         LET cell == s0.nodes[s0.shared[fr.x]]
             on == NextNode(s0) IN
         Push(AddNode(s0, [Node("subjobs", 0) EXCEPT !.c = cell.n]), <<Sub(S1(fr.x), on), F1("sethandle", fr.n)>>)
    [] f = "sethandle" -> [PopV(s0) EXCEPT !.handles[fr.n] = TopV(s0)]
    [] f \in SubjectFrames -> SubjectStep(s0, fr)
    [] f \in SubsFrames -> SubsStep(s0, fr)
    [] f \in MallFrames -> MallStep(s0, fr)
    [] f \in SchedFrames -> SchedStep(s0, fr)
    [] f \in SchedFrames2 -> SchedStep2(s0, fr)
    [] OTHER -> Fault(s0, "spec:unknown-frame")

RECURSIVE Run(_)
Run(st) == IF st.stack = <<>> \/ st.fault # "" THEN st ELSE Run(Step(st))

(* ------------------------------------------------------------------------*)
(* Stimuli: one public API call each.  A stimulus is a record              *)
(*   [k, a, b, t, v]                                                       *)
(* ------------------------------------------------------------------------*)
Stim(k, a, b, t, v) == [k |-> k, a |-> a, b |-> b, t |-> t, v |-> v]

RECURSIVE HotCalls(_, _, _)
HotCalls(slots, t, v) == MapCalls(slots, t, v)

(* InjectKeep: push the frames of one API call (the multi-threaded instance keeps one global log) *)
InjectKeep(st0, s) ==
  CASE s.k = "sub" ->            \* subscribe AST a with a fresh probe (reaction code b), keep the handle in slot t
         LET pid == st0.nprobe + 1
             pn == NextNode(st0)
             st1 == AddNode([st0 EXCEPT !.nprobe = pid, !.pcre = Append(@, <<st0.cur, st0.callno>>)],
                            [Node("probe", 0) EXCEPT !.a = pid, !.b = s.b, !.c = s.a])
         IN Push([st1 EXCEPT !.handles = Append(@, -1), !.hcre = Append(@, <<st0.cur, st0.callno>>)],
                 <<Sub(s.a, pn), F1("sethandle", Len(st1.handles) + 1)>>)
    [] s.k = "emit" ->           \* notification (t, v) on hot subject a
         Push(st0, SubjEmit(st0, s.a, s.t, s.v))
    [] s.k = "emitc" ->          \* notification through the stashed subscribers of `create` input a
         Push(st0, HotCalls(st0.hots[s.a], s.t, s.v))
    [] s.k = "unsub" ->          \* unsubscribe handle a (nothing to do if another thread has not created it yet)
         IF s.a > Len(st0.handles) \/ st0.handles[s.a] = -1 THEN [st0 EXCEPT !.ret = <<"noop">>] ELSE Push(st0, <<Unsub(st0.handles[s.a])>>)
    [] s.k = "closed" ->         \* is_closed() on handle a
         LET c == IF s.a > Len(st0.handles) \/ st0.handles[s.a] = -1 THEN 1 ELSE Closed(st0, st0.handles[s.a]) IN
         IF c = 2 THEN Busy(st0) ELSE [st0 EXCEPT !.ret = B(c = 1)]
    [] s.k = "squery" -> Push(st0, <<Fr("squery", s.a, "", U, s.b)>>)
    [] s.k = "sretain" -> Push(st0, <<F1("sretain", s.a)>>)
    [] s.k = "sunsub" -> Push(st0, <<F1("sunsub", s.a)>>)
    [] s.k = "bnext" -> Push(st0, <<Fr("bnext", s.a, "", s.v, 0)>>)
    [] s.k = "bpeek" -> Push(st0, <<F1("bpeek", s.a)>>)
    [] s.k = "bnextby" -> Push(st0, <<F2("bnextby", s.a, s.b)>>)
    [] s.k = "fpoll" ->           \* poll the future / stream kept in handle a once
         LET cn == st0.subs[st0.handles[s.a]].a nd == st0.nodes[cn] IN
         IF nd.q # <<>> THEN [st0 EXCEPT !.ret = Head(nd.q), !.nodes[cn].q = Tail(@)]
         ELSE [st0 EXCEPT !.ret = PollEmpty(nd)]
    [] s.k = "stq" ->             \* CompleteStatus accessors of the a-th status operator: 0 running, 1 completed, 2 failed
         [st0 EXCEPT !.ret = I(st0.nodes[st0.statcells[s.a]].n)]
    [] s.k = "stwait" -> Push(st0, <<F1("stpoll", st0.statcells[s.a])>>)     \* CompleteStatus::wait_for_end
    [] s.k = "build" -> st0      \* assembling a pipeline performs no work
    [] s.k = "connect" ->        \* connect() on the published observable AST a; keep the returned subscription as a handle
         Push([st0 EXCEPT !.handles = Append(@, -1)], <<F2("connect", Len(st0.handles) + 1, s.a)>>)
    [] s.k = "bterm" ->          \* error / complete on a BehaviorSubject
         Push(st0, SubjEmit(st0, s.a, s.t, s.v))
    [] s.k = "mappend" ->        \* MultiSubscription API: append handle b to the composite handle a
         Push(st0, <<F2("mappend", st0.subs[st0.handles[s.a]].a, st0.handles[s.b])>>)
    [] s.k = "mclosed" ->        \* is_closed() on a clone of the composite behind handle a (a handle that REMAINS after unsubscribe())
         LET c == Closed(st0, st0.handles[s.a]) IN
         IF c = 2 THEN Busy(st0) ELSE [st0 EXCEPT !.ret = B(c = 1)]
    [] s.k = "bsunsub" ->        \* Subscription::unsubscribe on the BehaviorSubject itself
         Push(st0, <<F1("sunsub", s.a)>>)
    [] s.k = "mretain" ->        \* MultiSubscription::retain() on the composite handle a
         Push(st0, <<F1("retain", st0.subs[st0.handles[s.a]].a)>>)
    [] s.k = "mnew" ->           \* a fresh, empty MultiSubscription kept as a handle
         LET id == NextNode(st0)
             st1 == AddSub(AddNode(st0, [Node("multicell", 0) EXCEPT !.m = Mode(st0)]), SubRec("multi", id, 0)) IN
         [st1 EXCEPT !.handles = Append(@, Len(st1.subs))]
    [] s.k \in SchedStims -> SchedInject(st0, s)
    [] OTHER -> Fault(st0, "spec:unknown-stimulus")

(* sequential suites: the observations of a stimulus start empty *)
Inject(st, s) == InjectKeep([st EXCEPT !.log = <<>>, !.ret = U, !.timerlog = <<>>], s)

Exec(st, s) == Run(Inject(st, s))

(* what the harness can observe of one stimulus *)
(* live = tasks the executor still holds; tm = the durations requested from the timer function by this stimulus *)
Obs(st) == [log |-> st.log, ret |-> st.ret, fault |-> st.fault, cnt |-> st.cnt, live |-> LiveTasks(st), tm |-> st.timerlog]

(* initial machine state with nSubj plain subjects, nBeh behavior subjects (initial value I(9)), nHotC create inputs *)
RECURSIVE WithSubjects(_, _, _)
WithSubjects(st, k, beh) == IF k = 0 THEN st ELSE WithSubjects(NewSubject(st, beh, I(9)), k - 1, beh)

(* operator values that carry shared state of their own (share: the Connectable/Connected cell; *)
(* publish: its subject) exist once per built pipeline: allocated for AST indices lo..hi       *)
RECURSIVE WithShared(_, _, _)
WithShared(st, x, hi) ==
  IF x > hi THEN st
  ELSE IF Op(x) = "share"
  THEN WithShared([AddNode(st, [Node("sharecell", 0) EXCEPT !.m = Mode(st)]) EXCEPT !.shared[x] = NextNode(st)], x + 1, hi)
  ELSE IF Op(x) = "publish"
  THEN LET st1 == NewSubject(st, FALSE, U) IN
       WithShared([AddNode(st1, [Node("sharecell", 0) EXCEPT !.n = Len(st1.subj), !.g = TRUE]) EXCEPT !.shared[x] = NextNode(st1)], x + 1, hi)
  ELSE WithShared(st, x + 1, hi)

InitMachine(arc, nSubj, nBeh, nHotC, lo, hi) ==   \* arc: the thread-safe form (every cell an Arc<Mutex>)
  LET s0 == [St0 EXCEPT !.arc = arc, !.hots = [i \in 1..nHotC |-> <<>>], !.shared = [x \in 1..Len(Prog) |-> 0]] IN
  WithShared(WithSubjects(WithSubjects(s0, nSubj, FALSE), nBeh, TRUE), lo, hi)
=============================================================================
