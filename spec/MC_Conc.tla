------------------------------- MODULE MC_Conc ------------------------------
(***************************************************************************)
(* Multi-threaded instance of the machine (thread-safe form: every cell an *)
(* Arc<Mutex>).  Each thread has its own frame stack and a script of API   *)
(* calls; ONE TLC transition = one thread is granted the processor and     *)
(* runs from the shared access it is waiting at (a lock acquisition, or a  *)
(* yield point: inside a probe callback, the check-then-register window of *)
(* CompleteStatus) to its next one, or to the end of its current call --   *)
(* exactly the events the `verif_hooks` feature reports from the real      *)
(* crate.  A thread whose pending acquisition is held by another thread is *)
(* disabled; a parked waiter is disabled until it is woken.                *)
(*                                                                         *)
(* TLC explores every schedule up to a preemption bound and prints, for    *)
(* every maximal one, the sequence of grants with what the specification   *)
(* predicts (who is blocked after each grant, the final observations).     *)
(* harness/rxthreads replays each schedule on real OS threads.             *)
(***************************************************************************)
EXTENDS RxMachine, RxProps, Json

CONSTANTS CaseLo, CaseHi, PreemptBound

VARIABLES case, st, thr, sched, last, pre

vars == <<case, st, thr, sched, last, pre>>

C == Cases[case]
NT == Len(C.threads)

IsYieldFrame(fr) == fr.f \in {"acq", "acqr", "yield", "stpark"}

(* load / store the context of thread t *)
Load(s, t) == [s EXCEPT !.stack = thr[t].stack, !.vs = thr[t].vs, !.cur = t]

RECURSIVE RunSeg(_, _)
(* run the loaded thread: perform the access it is waiting at (first = TRUE), then go on to its next one *)
RunSeg(s, first) ==
  IF s.fault # "" \/ s.stack = <<>> THEN s
  ELSE IF IsYieldFrame(Head(s.stack)) /\ ~first THEN s
  ELSE RunSeg(Step(s), FALSE)

RECURSIVE RunSetup(_, _)
RunSetup(s, pre0) == IF pre0 = <<>> THEN s ELSE RunSetup(Run(InjectKeep(s, Head(pre0))), Tail(pre0))

Thr0 == [stack |-> <<>>, vs |-> <<>>, pc |-> 1, rets |-> <<>>]

Init == /\ case \in CaseLo..CaseHi
        /\ LET s0 == [InitMachine(TRUE, Cases[case].nsubj, Cases[case].nbeh, Cases[case].nhotc, Cases[case].lo, Cases[case].hi)
                      EXCEPT !.conc = TRUE] IN
           st = RunSetup(s0, Cases[case].pre)         \* the set-up calls run on one thread before the others start
        /\ thr = [t \in 1..Len(Cases[case].threads) |-> Thr0]
        /\ sched = <<>>
        /\ last = 0
        /\ pre = 0

Finished(t) == thr[t].stack = <<>> /\ thr[t].pc > Len(C.threads[t])

(* waiting at a lock held by another thread, or parked without a pending wake-up *)
Blocked(t) ==
  /\ thr[t].stack # <<>>
  /\ LET fr == Head(thr[t].stack) IN
     \/ fr.f \in {"acq", "acqr"} /\ st.nodes[fr.n].h # 0 /\ st.nodes[fr.n].h # t
     \/ fr.f = "stpark" /\ st.nodes[fr.n].b = 0

Enabled(t) == ~Finished(t) /\ ~Blocked(t) /\ st.fault = ""

BlockedSet == {t \in 1..NT : ~Finished(t) /\ Blocked(t)}

(* the segment thread t would run if it were granted the processor now *)
Seg(t) ==
  LET s0 == [Load(st, t) EXCEPT !.callno = thr[t].pc] IN
  IF thr[t].stack = <<>> THEN RunSeg(InjectKeep(s0, C.threads[t][thr[t].pc]), FALSE) ELSE RunSeg(s0, TRUE)

(* a thread can move if it is not waiting for a lock / a wake-up and no query in its next segment meets a locked cell *)
CanMove(t) == Enabled(t) /\ Seg(t).fault # "qbusy"

Grant(t) ==
  /\ CanMove(t)
  /\ LET switch == last # 0 /\ last # t /\ CanMove(last)
         s1 == Seg(t)
         done == s1.stack = <<>> /\ s1.fault = ""
         t1 == [stack |-> s1.stack, vs |-> s1.vs,
                pc |-> IF done THEN thr[t].pc + 1 ELSE thr[t].pc,
                rets |-> IF done THEN Append(thr[t].rets, IF s1.ret = <<"noop">> THEN U ELSE s1.ret) ELSE thr[t].rets]
     IN /\ (switch => pre < PreemptBound)
        /\ pre' = IF switch THEN pre + 1 ELSE pre
        (* the return of an unsubscribe() is a point in the common event order (property C02) *)
        /\ st' = [s1 EXCEPT !.stack = <<>>, !.vs = <<>>,
                            !.ret = U,
                            !.log = IF done /\ ((C.threads[t][thr[t].pc].k = "unsub" /\ s1.ret # <<"noop">>)
                                                 \/ (C.threads[t][thr[t].pc].k = "closed" /\ s1.ret = B(TRUE)))      \* is_closed() answered true
                                    THEN Append(@, LogEntry(0, "U", I(C.threads[t][thr[t].pc].a), t)) ELSE @]
        /\ thr' = [thr EXCEPT ![t] = t1]
        /\ last' = t
        /\ sched' = Append(sched, t)
        /\ UNCHANGED case

Next == \E t \in 1..NT : Grant(t)

Spec == Init /\ [][Next]_vars

AllDone == \A t \in 1..NT : Finished(t)
(* nobody can move although somebody has not finished: deadlock or lost wake-up *)
Stuck == ~AllDone /\ st.fault = "" /\ \A t \in 1..NT : ~CanMove(t)
Maximal == AllDone \/ Stuck \/ st.fault # ""

(* ----- the thread-level properties, on the model ----- *)
RECURSIVE ItemsOfProbe(_, _)
ItemsOfProbe(log, p) == IF log = <<>> THEN <<>>
                        ELSE (IF Head(log).p = p /\ Head(log).t = "N" THEN <<Head(log).v>> ELSE <<>>) \o ItemsOfProbe(Tail(log), p)
RECURSIVE Restrict(_, _)
Restrict(s, other) == IF s = <<>> THEN <<>> ELSE (IF SeqContains(other, Head(s)) THEN <<Head(s)>> ELSE <<>>) \o Restrict(Tail(s), other)
(* all subscribers observe concurrent emissions in one common order (items are distinct in the suites) *)
CommonOrder(log, np) ==
  \A p, q \in 1..np : Restrict(ItemsOfProbe(log, p), ItemsOfProbe(log, q)) = Restrict(ItemsOfProbe(log, q), ItemsOfProbe(log, p))

ConcBad ==
  (IF st.overlap THEN <<"C10:overlap">> ELSE <<>>)
  \o (IF Stuck THEN <<"C10:stuck">> ELSE <<>>)
  \o (IF st.fault # "" THEN <<"C10:fault">> ELSE <<>>)
  \o (IF ~CommonOrder(st.log, st.nprobe) THEN <<"C10:order">> ELSE <<>>)

(* one line per maximal schedule *)
(* when every thread has finished the epilogue of the case runs on one thread (e.g. the executor is run to idle) *)
Final == IF AllDone /\ st.fault = "" THEN RunSetup([st EXCEPT !.cur = 0, !.callno = 0], C.post) ELSE st
EmitLine ==
  Maximal =>
    LET fin == Final IN
    PrintT(ToJson([c |-> case, sched |-> sched, bad |-> ConcBad, stuck |-> Stuck, fault |-> fin.fault,
                   overlap |-> fin.overlap, log |-> fin.log, cnt |-> fin.cnt, pcre |-> fin.pcre, hcre |-> fin.hcre, tcre |-> fin.tcre,
                   rets |-> [t \in 1..NT |-> thr[t].rets]]))

NoSpecFault == st.fault = "" \/ st.fault = "reentry"
=============================================================================
