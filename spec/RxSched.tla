------------------------------- MODULE RxSched ------------------------------
(***************************************************************************)
(* Scheduler sub-machine (src/scheduler.rs) and the operators / sources    *)
(* that hand work to a scheduler.                                          *)
(*                                                                         *)
(* A task is what `Scheduler::schedule(task, delay)` spawns: a `Remote`    *)
(* future around `async { if let Some(d) = delay { new_timer(d).await }    *)
(* task.await }` plus its HandleInfo cell (node kind "hinfo": f =          *)
(* keep_running, g = value present, n = the subscription a subscribing     *)
(* task produced).  Every poll first takes the handle lock and checks      *)
(* keep_running; the lock is held while the body runs.                     *)
(*                                                                         *)
(*   tasks[k] = [kind, ph, hn, delay, dl, p, fur, seq, obs, c, x, t, v]    *)
(*     ph    "new" (spawned, never polled) | "wait" (pending on the timer  *)
(*           dl created at its first poll) | "body" (its own future) |     *)
(*           "done"                                                        *)
(*     delay outer delay (-1 = None); timers are created when first polled *)
(*     fur   RepeatTask: deadline of the period timer (armed when the task *)
(*           was BUILT, re-armed at now + p after each tick)               *)
(* The clock only moves with the "adv" stimulus; "run" polls one task,     *)
(* "runall" sweeps all tasks in creation order until nothing is runnable   *)
(* (the prompt executor used by the harness scheduler).                    *)
(***************************************************************************)
EXTENDS RxSubs

Task(kind, hn, delay, obs) ==
  [kind |-> kind, ph |-> "new", hn |-> hn, delay |-> delay, dl |-> 0, p |-> 0, fur |-> 0, seq |-> 0,
   obs |-> obs, c |-> 0, x |-> 0, t |-> "", v |-> U]

NextTask(st) == Len(st.tasks) + 1
RepeatKinds == {"repint", "repbuf", "urep"}

(* spawn a task: allocates its HandleInfo cell (always an Arc<Mutex>); returns the state; *)
(* the task id is Len(tasks), the handle node is Len(nodes)                                  *)
Spawn(st, tk) ==
  LET hn == NextNode(st)
      st1 == AddNode(st, [Node("hinfo", 0) EXCEPT !.m = "arc", !.f = TRUE, !.g = FALSE]) IN
  [st1 EXCEPT !.tasks = Append(@, [tk EXCEPT !.hn = hn]),
              !.timerlog = IF tk.kind \in RepeatKinds THEN Append(@, tk.fur - st.now) ELSE @]

Runnable(st, k) ==
  LET tk == st.tasks[k] IN
  CASE tk.ph = "new" -> TRUE
    [] tk.ph = "wait" -> st.now >= tk.dl
    [] tk.ph = "body" ->
         CASE tk.kind \in RepeatKinds -> st.now >= tk.fur
           [] tk.kind = "future" -> st.futs[tk.x] # <<>>
           [] tk.kind = "stream" -> st.streams[tk.x] # <<>> \/ Fin(st, tk.obs) = 1
           [] OTHER -> TRUE
    [] OTHER -> FALSE

LiveTasks(st) == Len(SelectSeq(st.tasks, LAMBDA tk : tk.ph # "done"))

(* frames of the body of task k, run with the handle lock held *)
BodyFrames(st, k) ==
  LET tk == st.tasks[k] IN
  CASE tk.kind = "emit" -> <<Call(tk.obs, tk.t, tk.v), F1("taskdone", k)>>
    [] tk.kind = "timer" -> <<CallN(tk.obs, tk.v), CallC(tk.obs), F1("taskdone", k)>>
    [] tk.kind = "trail" ->       \* debounce_task / throttle_task: take the trailing value and emit it, value cell locked
         <<Acq(tk.c), F1("trail2", k), Rel(tk.c), F1("taskdone", k)>>
    [] tk.kind = "subscribe" -> <<Sub(tk.x, tk.obs), F1("subdone", k)>>
    (* tasks scheduled directly through Scheduler::schedule by the harness (C19): they record that they ran *)
    [] tk.kind = "uonce" -> <<Fr("ran", k, "", I(0), 0), F1("taskdone", k)>>
    [] tk.kind = "usub" -> <<Fr("ran", k, "", I(0), 0), F1("mkflagsub", k), F1("subdone", k)>>
    [] OTHER -> <<F1("taskdone", k)>>

(* one poll of task k: Remote::poll *)
PollFrames(st, k) == <<Acq(st.tasks[k].hn), F1("poll2", k), Rel(st.tasks[k].hn)>>

SchedOps == {"delay", "observe_on", "delay_subscription", "subscribe_on", "debounce", "throttle",
             "buffer_time", "buffer_count_time", "interval", "timer", "from_future", "from_stream"}
SchedObserverKinds == {"delayobs", "debobs", "throbs"}
SchedFrames == {"ran", "mkflagsub", "poll2", "taskdone", "subdone", "trail2", "tick", "tick2", "retain", "sched", "apphandle", "debcancel",
                "debstore", "thrnext2", "streamstep", "runall", "runone"}
SchedStims == {"adv", "run", "runall", "fresolve", "spush", "tsched"}

(* schedule a one-shot task and leave the subscription of its handle on the value stack *)
SpawnOnce(st, kind, delay, obs, c, x, t, v) ==
  LET st1 == Spawn(st, [Task(kind, 0, delay, obs) EXCEPT !.c = c, !.x = x, !.t = t, !.v = v]) IN
  RetSub(st1, SubRec(IF kind = "subscribe" THEN "tasksub" ELSE "task", Len(st1.nodes), 0))

SchedStep(st, fr) ==
  CASE fr.f = "poll2" ->         \* holding the handle of task n
         LET k == fr.n tk == st.tasks[k] hn == st.nodes[tk.hn] IN
         IF tk.ph = "done" THEN st
         ELSE IF ~hn.f THEN [st EXCEPT !.tasks[k].ph = "done"]          \* cancelled: bail out
         ELSE IF tk.ph = "new" /\ tk.delay >= 0
         THEN (* first poll: the delay timer is created now *)
              LET st1 == [st EXCEPT !.tasks[k].ph = "wait", !.tasks[k].dl = st.now + tk.delay,
                                    !.timerlog = Append(@, tk.delay)] IN
              IF tk.delay = 0 THEN Push(st1, <<F1("poll2", k)>>) ELSE st1
         ELSE IF tk.ph = "wait" /\ st.now < tk.dl THEN st
         ELSE IF tk.kind \in RepeatKinds THEN Push([st EXCEPT !.tasks[k].ph = "body"], <<F1("tick", k)>>)
         ELSE IF tk.kind = "future" THEN
           LET st1 == [st EXCEPT !.tasks[k].ph = "body"] IN
           IF st.futs[tk.x] = <<>> THEN st1
           ELSE LET r == st.futs[tk.x][1] IN
                (* the scripted future counts every time it yields its result (counter 6): once per subscription *)
                Push(st1, <<Bump(6)>> \o (IF r[1] = "E" THEN <<CallE(tk.obs, r[2])>> ELSE <<CallN(tk.obs, r[2]), CallC(tk.obs)>>)
                          \o <<F1("taskdone", k)>>)
         ELSE IF tk.kind = "stream" THEN Push([st EXCEPT !.tasks[k].ph = "body"], <<F1("streamstep", k)>>)
         ELSE Push([st EXCEPT !.tasks[k].ph = "body"], BodyFrames(st, k))
    [] fr.f = "taskdone" ->      \* info.value = Some(..)
         [st EXCEPT !.tasks[fr.n].ph = "done", !.nodes[st.tasks[fr.n].hn].g = TRUE]
    [] fr.f = "subdone" ->       \* the subscribing task stores the subscription it produced
         [PopV(st) EXCEPT !.tasks[fr.n].ph = "done", !.nodes[st.tasks[fr.n].hn].g = TRUE,
                          !.nodes[st.tasks[fr.n].hn].n = TopV(st)]
    [] fr.f = "trail2" ->        \* holding the trailing-value cell
         LET tk == st.tasks[fr.n] vc == st.nodes[tk.c] IN
         IF IsSome(vc.v) THEN Push([st EXCEPT !.nodes[tk.c].v = NoneV], <<CallN(tk.obs, Unwrap(vc.v))>>) ELSE st
    [] fr.f = "tick" ->          \* RepeatTask::poll loop: wait for the period timer, call the task function
         LET k == fr.n tk == st.tasks[k] IN
         IF st.now < tk.fur THEN st
         ELSE IF tk.kind = "repint" THEN      \* interval_task
           LET fin == Fin(st, tk.obs) IN
           IF fin = 2 THEN Busy(st)
           ELSE IF fin = 1 THEN Push(st, <<F1("taskdone", k)>>)
           ELSE Push(st, <<CallN(tk.obs, I(tk.seq)), F1("tick2", k)>>)
         ELSE IF tk.kind = "urep" THEN        \* harness repeating task: runs, asks to continue while seq < 2
           IF tk.seq < 2 THEN Push(st, <<Fr("ran", k, "", I(tk.seq), 0), F1("tick2", k)>>)
           ELSE Push(st, <<Fr("ran", k, "", I(tk.seq), 0), F1("taskdone", k)>>)
         ELSE                                 \* emit_buffer / emit_count_buffer
           LET fin == Fin(st, tk.obs) IN
           IF fin = 2 THEN Busy(st)
           ELSE IF fin = 1 THEN Push(st, <<F1("taskdone", k)>>)
           ELSE Push(st, <<Acq(tk.obs), Body(tk.obs, "flush", U), Rel(tk.obs), F1("tick2", k)>>)
    [] fr.f = "tick2" ->         \* seq += 1; a fresh period timer relative to NOW; loop
         LET k == fr.n IN
         Push([st EXCEPT !.tasks[k].seq = @ + 1, !.tasks[k].fur = st.now + st.tasks[k].p,
                         !.timerlog = Append(@, st.tasks[k].p)], <<F1("tick", k)>>)
    [] fr.f = "streamstep" ->    \* StreamObserverFuture::poll: drain what the stream has, end on None / Err
         LET k == fr.n tk == st.tasks[k] q == st.streams[tk.x] fin == Fin(st, tk.obs) IN
         IF fin = 2 THEN Busy(st)
         ELSE IF fin = 1 THEN Push(st, <<F1("taskdone", k)>>)          \* nobody wants further items: retire
         ELSE IF q = <<>> THEN st
         ELSE LET m == Head(q)
                  st1 == [st EXCEPT !.streams[tk.x] = Tail(@)] IN
              (* every item taken from the stream is an observation ("I" entry): none may be taken after the subscriber's terminal *)
              IF m[1] = "N" THEN Push([st1 EXCEPT !.log = IF st.conc THEN @ ELSE Append(@, LogEntry(0, "I", U, st.now))],
                                      <<CallN(tk.obs, m[2]), F1("streamstep", k)>>)
              ELSE Push(st1, <<Call(tk.obs, m[1], m[2]), F1("taskdone", k)>>)
    [] fr.f = "retain" -> Push(st, <<Acq(fr.n), Rel(fr.n)>>)      \* MultiSubscription::retain(): nothing to drop
    [] fr.f = "sched" ->         \* delay / observe_on: one task per notification; x = delay (-1: none), n = observer node
         LET nd == st.nodes[fr.n] IN
         Push(SpawnOnce(st, "emit", fr.x, nd.d, 0, 0, fr.t, fr.v), <<F1("mappendv", nd.c)>>)
    [] fr.f = "debcancel" ->     \* holding the handle cell of debounce: cancel the pending task
         LET hc == st.nodes[fr.n] IN
         IF hc.f THEN Push([st EXCEPT !.nodes[fr.n].f = FALSE], <<Unsub(hc.n)>>) ELSE st
    [] fr.f = "debstore" ->      \* holding the handle cell: *task_handler = Some(top of value stack)
         [PopV(st) EXCEPT !.nodes[fr.n].f = TRUE, !.nodes[fr.n].n = TopV(st)]
    [] fr.f = "thrnext2" ->      \* ThrottleObserver::next after the trailing value was stored; nd.n = the handle cell
         LET n == fr.n nd == st.nodes[n] hc == st.nodes[nd.n]
             c == IF RHeld(hc) THEN 2 ELSE IF ~hc.f THEN 1 ELSE Closed(st, hc.n) IN
         IF c = 2 THEN Busy(st)
         ELSE IF c = 0 THEN st                       \* a window is open
         ELSE LET d == IF nd.a > 0 THEN nd.a ELSE (W(fr.v) % 2) + 1       \* duration_selector
                  st1 == SpawnOnce(st, "trail", d, nd.d, nd.c, 0, "", U)
                  store == <<Acq(nd.n), F1("debstore", nd.n), Rel(nd.n)>> IN
              (* leading edge: the opener is emitted now and taken out of the trailing-value cell *)
              IF nd.b \in {1, 3}
              THEN Push(st1, <<Acq(nd.c), Fr("vset", nd.c, "", NoneV, 0), Rel(nd.c), CallN(nd.d, fr.v)>> \o store)
              ELSE Push(st1, store)
    [] fr.f = "ran" ->           \* the body of a harness task: one log entry <task, "R", seq>
         [st EXCEPT !.log = Append(@, LogEntry(100 + fr.n, "R", fr.v, st.now))]
    [] fr.f = "mkflagsub" ->     \* the subscription a subscribing harness task produces: a flag that records its unsubscription
         LET id == NextNode(st) IN
         RetSub(AddNode(st, [Node("flagsub", 0) EXCEPT !.a = fr.n]), SubRec("flag", id, 0))
    [] fr.f = "runone" ->        \* poll task n if it exists and is not finished
         IF fr.n <= Len(st.tasks) /\ st.tasks[fr.n].ph # "done" THEN Push(st, PollFrames(st, fr.n)) ELSE st
    [] fr.f = "runall" ->        \* the prompt executor: sweep all unfinished tasks in creation order (tasks spawned
                                 \* meanwhile included) until a whole sweep finds nothing to do; x = 1 iff this sweep did something
         LET k == fr.n IN
         IF k > Len(st.tasks) THEN (IF fr.x = 1 THEN Push(st, <<F2("runall", 1, 0)>>) ELSE st)
         ELSE IF st.tasks[k].ph = "done" THEN Push(st, <<F2("runall", k + 1, fr.x)>>)
         ELSE LET act == Runnable(st, k) \/ ~st.nodes[st.tasks[k].hn].f IN
              Push(st, PollFrames(st, k) \o <<F2("runall", k + 1, IF act THEN 1 ELSE fr.x)>>)
    [] OTHER -> Fault(st, "spec:unknown-sched-frame")

(* observers of the scheduler-using operators *)
SchedCall(st, fr) ==
  LET n == fr.n nd == st.nodes[n] k == nd.k t == fr.t v == fr.v IN
  CASE k = "delayobs" ->         \* d = shared slot, c = MultiSubscription cell, a = delay (-1: observe_on), b = 1 if errors are scheduled too
         IF t = "E" /\ nd.b = 0 THEN Push(st, <<CallE(nd.d, v)>>)
         ELSE Push(st, <<F1("retain", nd.c), Fr("sched", n, t, v, nd.a)>>)
    [] k = "debobs" ->           \* d = slot, c = trailing-value cell, b = handle cell, a = delay
         IF t = "N" THEN
           Push(st, <<Acq(nd.c), Fr("vset", nd.c, "", SomeV(v), 0), Rel(nd.c),
                      Acq(nd.b), F1("debcancel", nd.b), Rel(nd.b),
                      Fr("debsched", n, "", U, 0),
                      Acq(nd.b), F1("debstore", nd.b), Rel(nd.b)>>)
         ELSE IF t = "E" THEN Push(st, <<CallE(nd.d, v)>>)
         ELSE Push(st, <<Acq(nd.c), F1("valflush", n), Rel(nd.c), CallC(nd.d)>>)
    [] k = "throbs" ->           \* d = slot, c = trailing-value cell, a = window (0: by selector), b = edge, n = current handle
         IF t = "N" THEN
           Push(st, (IF nd.b \in {2, 3} THEN <<Acq(nd.c), Fr("vset", nd.c, "", SomeV(v), 0), Rel(nd.c)>> ELSE <<>>)
                    \o <<Fr("thrnext2", n, "", v, 0)>>)
         ELSE IF t = "E" THEN Push(st, <<CallE(nd.d, v), F1("unsubcur", n)>>)
         ELSE Push(st, <<Acq(nd.c), F1("valflush", n), Rel(nd.c), F1("unsubcur", n), CallC(nd.d)>>)
    [] OTHER -> Fault(st, "spec:unknown-sched-observer")

(* two more frames used above *)
SchedStep2(st, fr) ==
  CASE fr.f = "debsched" ->      \* schedule debounce_task(observer, trailing value) after the delay
         LET nd == st.nodes[fr.n] IN SpawnOnce(st, "trail", nd.a, nd.d, nd.c, 0, "", U)
    [] fr.f = "valflush" ->      \* holding the trailing-value cell: emit what is pending
         LET nd == st.nodes[fr.n] vc == st.nodes[nd.c] IN
         IF IsSome(vc.v) THEN Push([st EXCEPT !.nodes[nd.c].v = NoneV], <<CallN(nd.d, Unwrap(vc.v))>>) ELSE st
    [] fr.f = "unsubcur" ->      \* if let Some(handler) = task_handler.take() { handler.unsubscribe() }
         Push(st, <<Acq(st.nodes[fr.n].n), F1("debcancel", st.nodes[fr.n].n), Rel(st.nodes[fr.n].n)>>)
    [] OTHER -> Fault(st, "spec:unknown-sched-frame2")
SchedFrames2 == {"debsched", "valflush", "unsubcur"}

(* actual_subscribe of the scheduler-using operators and sources *)
SchedSub(st, fr) ==
  LET x == fr.x n == fr.n o == Op(x) id == NextNode(st) md == Mode(st) IN
  CASE o = "delay" \/ o = "observe_on" ->   \* slot id, MultiSubscription cell id+1, observer id+2
         LET st1 == AddNode(AddNode(AddNode(st, [Node("slot", n) EXCEPT !.m = md]),
                                    [Node("multicell", 0) EXCEPT !.m = md]),
                            [Node("delayobs", id) EXCEPT !.c = id + 1,
                                                         !.a = IF o = "delay" THEN PA(x) ELSE -1,
                                                         !.b = IF o = "delay" THEN 0 ELSE 1])
             st2 == AddSub(st1, SubRec("multi", id + 1, 0)) IN
         Push(st2, <<Sub(S1(x), id + 2), F1("retsub", Len(st2.subs)), F0("mkzip")>>)
    [] o = "delay_subscription" -> SpawnOnce(st, "subscribe", PA(x), n, 0, S1(x), "", U)
    [] o = "subscribe_on" -> SpawnOnce(st, "subscribe", -1, n, 0, S1(x), "", U)
    [] o = "debounce" ->         \* slot id, value cell id+1, handle cell id+2, observer id+3 (all MutArc)
         LET st1 == AddNode(AddNode(AddNode(AddNode(st,
                      [Node("slot", n) EXCEPT !.m = "arc"]),
                      [Node("valcell", 0) EXCEPT !.m = "arc", !.v = NoneV]),
                      [Node("hcell", 0) EXCEPT !.m = "arc", !.f = FALSE]),
                      [Node("debobs", id) EXCEPT !.c = id + 1, !.b = id + 2, !.a = PA(x)])
             st2 == AddSub(st1, SubRec("optcell", id + 2, 0)) IN
         Push(st2, <<Sub(S1(x), id + 3), F1("retsub", Len(st2.subs)), F0("mkzip")>>)
    [] o = "throttle" ->         \* slot id, value cell id+1, handle cell id+2 (None: no window yet), observer id+3 (all MutArc)
         LET st1 == AddNode(AddNode(AddNode(AddNode(st,
                      [Node("slot", n) EXCEPT !.m = "arc"]),
                      [Node("valcell", 0) EXCEPT !.m = "arc", !.v = NoneV]),
                      [Node("hcell", 0) EXCEPT !.m = "arc", !.f = FALSE]),
                      [Node("throbs", id) EXCEPT !.c = id + 1, !.n = id + 2, !.a = PA(x), !.b = PB(x)])
             st2 == AddSub(st1, SubRec("optcell", id + 2, 0)) IN
         Push(st2, <<Sub(S1(x), id + 3), F1("retsub", Len(st2.subs)), F0("mkzip")>>)
    [] o = "buffer_time" \/ o = "buffer_count_time" ->   \* the repeating flush task is scheduled BEFORE the source is subscribed
         LET st1 == AddNode(st, [Node("bufcell", n) EXCEPT !.m = "arc", !.a = IF o = "buffer_time" THEN 0 ELSE PA(x)])
             per == IF o = "buffer_time" THEN PA(x) ELSE PB(x)
             st2 == Spawn(st1, [Task("repbuf", 0, -1, id) EXCEPT !.p = per, !.fur = st.now + per])
             st3 == RetSub(st2, SubRec("task", Len(st2.nodes), 0)) IN
         Push(st3, <<Sub(S1(x), id), F0("mkzip")>>)
    [] o = "interval" ->         \* a = period, b = initial delay (-1: none); the first period timer is armed when the task is
                                 \* built: one period for interval(), nothing for interval_at (first tick when the delay is over)
         LET first == IF PB(x) >= 0 THEN 0 ELSE PA(x)
             st1 == Spawn(st, [Task("repint", 0, PB(x), n) EXCEPT !.p = PA(x), !.fur = st.now + first, !.x = first]) IN
         RetSub(st1, SubRec("task", Len(st1.nodes), 0))
    [] o = "timer" -> SpawnOnce(st, "timer", PA(x), n, 0, 0, "", PV(x))
    [] o = "from_future" ->
         LET st1 == Spawn(st, [Task("future", 0, -1, n) EXCEPT !.x = PA(x)]) IN
         RetSub(st1, SubRec("task", Len(st1.nodes), 0))
    [] o = "from_stream" ->
         LET st1 == Spawn(st, [Task("stream", 0, -1, n) EXCEPT !.x = PA(x)]) IN
         RetSub(st1, SubRec("task", Len(st1.nodes), 0))
    [] OTHER -> Fault(st, "spec:unknown-sched-op")

SchedInject(st0, s) ==
  CASE s.k = "adv" -> [st0 EXCEPT !.now = @ + s.a]
    [] s.k = "run" -> Push(st0, <<F1("runone", s.a)>>)
    [] s.k = "runall" -> Push(st0, <<F2("runall", 1, 0)>>)
    [] s.k = "tsched" ->          \* Scheduler::schedule(task, delay): a = 1 one-shot, 2 repeating (period b), 3 subscribing; b = delay (-1: none)
         LET kind == IF s.a = 1 THEN "uonce" ELSE IF s.a = 2 THEN "urep" ELSE "usub"
             tk0 == Task(kind, 0, IF s.a = 2 THEN -1 ELSE s.b, 0)
             (* a repeating task: period b; v = I(first): RepeatTask::with_first_tick(first, period), otherwise the first tick is one period away *)
             tk == IF s.a = 2 THEN [tk0 EXCEPT !.p = s.b, !.fur = st0.now + (IF s.v[1] = "i" THEN W(s.v) ELSE s.b)] ELSE tk0
             st1 == Spawn(st0, tk)
             st2 == AddSub(st1, SubRec(IF s.a = 3 THEN "tasksub" ELSE "task", Len(st1.nodes), 0)) IN
         [st2 EXCEPT !.handles = Append(@, Len(st2.subs)), !.hcre = Append(@, <<st0.cur, st0.callno>>),
                     !.tcre = [i \in 1..Len(st2.tasks) |-> IF i <= Len(st0.tcre) THEN st0.tcre[i] ELSE <<st0.cur, st0.callno>>]]
    [] s.k = "fresolve" ->        \* the scripted future a becomes ready with (t, v); a future resolves once
         IF st0.futs[s.a] = <<>> THEN [st0 EXCEPT !.futs[s.a] = <<<<s.t, s.v>>>>] ELSE st0
    [] s.k = "spush" ->           \* the scripted stream a yields an item / an error / its end
         [st0 EXCEPT !.streams[s.a] = Append(@, <<s.t, s.v>>)]
    [] OTHER -> Fault(st0, "spec:unknown-sched-stimulus")
=============================================================================
