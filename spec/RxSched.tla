------------------------------- MODULE RxSched ------------------------------
(***************************************************************************)
(* Scheduler sub-machine (src/scheduler.rs) and the operators / sources    *)
(* that hand work to a scheduler.  Filled in by the timed suites.          *)
(***************************************************************************)
EXTENDS RxSubs

SchedObserverKinds == {}
SchedOps == {}
SchedFrames == {}
SchedStims == {}
SchedCall(st, fr) == Fault(st, "spec:sched-not-modelled")
SchedSub(st, fr) == Fault(st, "spec:sched-not-modelled")
SchedStep(st, fr) == Fault(st, "spec:sched-not-modelled")
SchedInject(st, s) == Fault(st, "spec:sched-not-modelled")
=============================================================================
