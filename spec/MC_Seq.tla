------------------------------- MODULE MC_Seq -------------------------------
(***************************************************************************)
(* Bounded instance for the sequential suites: TLC enumerates, for every   *)
(* case of the generated catalogue (module Gen), EVERY stimulus sequence   *)
(* of the case's alphabet up to its length bound, runs the machine, judges *)
(* the behaviour with the monitors of RxProps and prints one line per      *)
(* maximal behaviour:  the stimuli, the observations the machine predicts  *)
(* and the property ids the monitors found violated in the model.  The     *)
(* lines are replayed on the real crate by harness/rxreplay.               *)
(***************************************************************************)
EXTENDS RxMachine, RxProps, Json

CONSTANTS CaseLo, CaseHi

VARIABLES case, arc, st, H

vars == <<case, arc, st, H>>

C == Cases[case]

(* arc: FALSE = the prediction is for the local form (and, unless the case says that the two forms   *)
(* may differ, for the thread-safe form too); TRUE = the prediction is for the thread-safe form       *)
Init == /\ case \in CaseLo..CaseHi
        /\ arc \in (IF Cases[case].forms = "split" THEN {FALSE, TRUE} ELSE {FALSE})
        /\ st = InitMachine(arc, Cases[case].nsubj, Cases[case].nbeh, Cases[case].nhotc, Cases[case].lo, Cases[case].hi)
        /\ H = <<>>

NPre == Len(C.pre)
MaxLen == NPre + C.L

(* handles are numbered in the order of the stimuli that create them *)
RECURSIVE NHandles(_), Consumed(_, _), Did(_, _)
NHandles(h) == IF h = <<>> THEN 0 ELSE (IF Head(h).s.k \in {"sub", "connect", "mnew", "tsched"} THEN 1 ELSE 0) + NHandles(Tail(h))
Consumed(h, a) == IF h = <<>> THEN FALSE
                  ELSE (Head(h).s.k = "unsub" /\ Head(h).s.a = a) \/ (Head(h).s.k = "mappend" /\ Head(h).s.b = a) \/ Consumed(Tail(h), a)
Did(h, k) == IF h = <<>> THEN FALSE ELSE Head(h).s.k = k \/ Did(Tail(h), k)

Allowed(s) ==
  CASE s.k \in {"unsub", "closed"} -> s.a <= NHandles(H) /\ ~Consumed(H, s.a)
    [] s.k = "mclosed" -> s.a <= NHandles(H)
    [] s.k = "mappend" -> s.a <= NHandles(H) /\ s.b <= NHandles(H) /\ s.a # s.b /\ ~Consumed(H, s.b)
    [] s.k = "connect" -> ~Did(H, "connect")
    [] OTHER -> TRUE

Do(s) ==
  LET st1 == Exec(st, s)
      H1 == Append(H, [s |-> s, o |-> Obs(st1)])
      leaf == Len(H1) = MaxLen \/ st1.fault # ""
  IN /\ st' = st1
     /\ H' = H1
     /\ UNCHANGED <<case, arc>>
     /\ leaf => PrintT(ToJson([c |-> case, form |-> IF C.forms = "split" THEN (IF arc THEN "threads" ELSE "local") ELSE C.forms,
                                bad |-> MonRun(Mon0, H1, C), steps |-> H1]))

Next == /\ st.fault = ""
        /\ Len(H) < MaxLen
        /\ IF Len(H) < NPre
           THEN Do(C.pre[Len(H) + 1])
           ELSE \E i \in 1..Len(C.alpha) : Allowed(C.alpha[i]) /\ Do(C.alpha[i])

Spec == Init /\ [][Next]_vars

(* the specification itself must never get stuck on an unmodelled construct *)
NoSpecFault == st.fault = "" \/ st.fault = "reentry"
=============================================================================
