------------------------------- MODULE RxSubs -------------------------------
(***************************************************************************)
(* Subscription trees (src/subscription.rs, src/subscriber.rs, the handle  *)
(* part of src/scheduler.rs, src/ops/finalize.rs, src/ops/ref_count.rs).   *)
(*                                                                         *)
(* subs[id] = [k, a, b]:                                                   *)
(*   "slot"    a = Subscriber slot node                                    *)
(*   "zip"     ZipSubscription(a, b)                                       *)
(*   "multi"   MultiSubscription, a = its cell node (kind "multicell",     *)
(*             f = Some(vec), q = child subscription ids)                  *)
(*   "task"    TaskHandle<NormalReturn>, a = HandleInfo node ("hinfo":     *)
(*             f = keep_running, g = value present)                        *)
(*   "tasksub" TaskHandle<SubscribeReturn>, a = HandleInfo node (n = the   *)
(*             subscription the task produced)                             *)
(*   "fin"     FinalizerSubscription(a = inner, b = callback cell)         *)
(*   "refcnt"  RefCountSubscription(a = subject, b = inner)                *)
(*   "optcell" MutArc<Option<TaskHandle>> (debounce), a = cell ("hcell":   *)
(*             f = Some, n = handle subscription id)                       *)
(*   "subject" a Subject used as a Subscription                            *)
(* id 0 is `()`.                                                           *)
(***************************************************************************)
EXTENDS RxSubject

Unsub(id) == F1("unsub", id)

RECURSIVE Closed(_, _), AllClosed(_, _)
(* Subscription::is_closed: 0 false, 1 true, 2 touched a locked cell *)
Closed(st, id) ==
  IF id = 0 THEN 1
  ELSE LET s == st.subs[id] IN
  CASE s.k = "slot" -> IF RHeld(st.nodes[s.a]) THEN 2 ELSE IF st.nodes[s.a].f THEN 0 ELSE 1
    [] s.k = "zip" -> LET ca == Closed(st, s.a) IN IF ca # 1 THEN ca ELSE Closed(st, s.b)   \* a.is_closed() && b.is_closed()
    [] s.k = "multi" ->
         IF RHeld(st.nodes[s.a]) THEN 2
         ELSE IF ~st.nodes[s.a].f THEN 1 ELSE AllClosed(st, st.nodes[s.a].q)
    [] s.k = "task" -> IF RHeld(st.nodes[s.a]) THEN 2 ELSE IF st.nodes[s.a].g THEN 1 ELSE 0
    [] s.k = "tasksub" ->
         IF RHeld(st.nodes[s.a]) THEN 2
         ELSE IF st.nodes[s.a].g THEN Closed(st, st.nodes[s.a].n) ELSE 0
    [] s.k = "fin" -> Closed(st, s.a)
    [] s.k = "flag" -> IF st.nodes[s.a].f THEN 0 ELSE 1       \* harness subscription: closed once unsubscribed
    [] s.k = "refcnt" -> Closed(st, s.b)
    [] s.k = "optcell" -> IF RHeld(st.nodes[s.a]) THEN 2 ELSE IF st.nodes[s.a].f THEN 0 ELSE 1
    [] s.k = "subject" ->
         IF RHeld(st.nodes[ONode(st, s.a)]) THEN 2 ELSE IF st.nodes[ONode(st, s.a)].f THEN 0 ELSE 1
    [] OTHER -> 1
AllClosed(st, ids) ==
  IF ids = <<>> THEN 1
  ELSE LET c == Closed(st, Head(ids)) IN
       IF c = 1 THEN AllClosed(st, Tail(ids)) ELSE c

SubsStep(st, fr) ==
  CASE fr.f = "unsub" ->
         IF fr.n = 0 THEN st
         ELSE LET s == st.subs[fr.n] IN
         CASE s.k = "slot" -> Push(st, <<Acq(s.a), F1("settake", s.a), Rel(s.a)>>)
           [] s.k = "zip" -> Push(st, <<Unsub(s.a), Unsub(s.b)>>)
           [] s.k = "multi" -> Push(st, <<Acq(s.a), F1("mtake", s.a)>>)
           [] s.k = "task" -> Push(st, <<Acq(s.a), F1("hcancel", s.a), Rel(s.a)>>)
           [] s.k = "tasksub" -> Push(st, <<Acq(s.a), F1("tsunsub", s.a), Rel(s.a)>>)
           [] s.k = "fin" -> Push(st, <<Unsub(s.a), Acq(s.b), F1("fincall", s.b), Rel(s.b)>>)
           [] s.k = "refcnt" -> Push(st, <<Unsub(s.b), Fr("squery", s.a, "", U, 2), F1("rccheck", s.a)>>)
           [] s.k = "optcell" -> Push(st, <<Acq(s.a), F1("optunsub", s.a), Rel(s.a)>>)
           [] s.k = "subject" -> Push(st, <<F1("sunsub", s.a)>>)
           [] s.k = "flag" ->     \* harness subscription: records its unsubscription
                [st EXCEPT !.nodes[s.a].f = FALSE,
                           !.log = Append(@, LogEntry(100 + st.nodes[s.a].a, "U", U, st.now))]
           [] OTHER -> st
    [] fr.f = "settake" -> [st EXCEPT !.nodes[fr.n].f = FALSE]
    [] fr.f = "mtake" ->        \* holding the composite's cell: take the vector, drop the guard, tear down
         LET nd == st.nodes[fr.n] IN
         Push([st EXCEPT !.nodes[fr.n].f = FALSE, !.nodes[fr.n].q = <<>>],
              <<Rel(fr.n)>> \o (IF nd.f THEN MapF1("unsub", nd.q) ELSE <<>>))
    [] fr.f = "hcancel" ->      \* keep_running = false; value.take()
         [st EXCEPT !.nodes[fr.n].f = FALSE, !.nodes[fr.n].g = FALSE]
    [] fr.f = "tsunsub" ->      \* holding the handle: cancel, unsubscribe what the task produced
         LET nd == st.nodes[fr.n] IN
         IF nd.g THEN Push([st EXCEPT !.nodes[fr.n].f = FALSE, !.nodes[fr.n].g = FALSE], <<Unsub(nd.n)>>)
         ELSE [st EXCEPT !.nodes[fr.n].f = FALSE]
    [] fr.f = "fincall" ->      \* holding the callback cell: take() and call
         IF st.nodes[fr.n].f
         THEN LET nd == st.nodes[fr.n] IN     \* a > 0: the callback also sends item v into hot subject a (teardown feeding back)
              (* the harness callback leaves an entry in the common log: its place among the notifications is observable *)
              Push([st EXCEPT !.nodes[fr.n].f = FALSE,
                              !.log = IF st.conc THEN @ ELSE Append(@, LogEntry(0, "F", U, st.now))],
                   <<Bump(nd.b)>> \o (IF nd.a > 0 THEN SubjEmit(st, nd.a, "N", nd.v) ELSE <<>>))
         ELSE st
    [] fr.f = "rccheck" ->      \* ret = subject.is_empty()
         IF st.ret = B(TRUE) THEN Push([st EXCEPT !.ret = U], <<F1("sunsub", fr.n)>>) ELSE [st EXCEPT !.ret = U]
    [] fr.f = "optunsub" ->
         LET nd == st.nodes[fr.n] IN
         IF nd.f THEN Push([st EXCEPT !.nodes[fr.n].f = FALSE], <<Unsub(nd.n)>>) ELSE st
    [] fr.f = "mappend" ->      \* MultiSubscription::append(child = x) on cell n
         Push(st, <<Acq(fr.n), F2("mappend2", fr.n, fr.x)>>)
    [] fr.f = "mappend2" ->     \* holding the cell: push, or (already unsubscribed) release and tear the late addition down
         IF st.nodes[fr.n].f THEN Push([st EXCEPT !.nodes[fr.n].q = Append(@, fr.x)], <<Rel(fr.n)>>)
         ELSE Push(st, <<Rel(fr.n), Unsub(fr.x)>>)
    [] fr.f = "mappendv" ->     \* append the subscription on top of the value stack to cell n
         Push(PopV(st), <<F2("mappend", fr.n, TopV(st))>>)
    [] fr.f = "mkzip" ->        \* ZipSubscription::new(a, b): b is on top
         LET b == st.vs[1] a == st.vs[2] IN
         RetSub([st EXCEPT !.vs = Tail(Tail(@))], SubRec("zip", a, b))
    [] fr.f = "mkzipr" ->       \* ZipSubscription::new(top, second)
         LET a == st.vs[1] b == st.vs[2] IN
         RetSub([st EXCEPT !.vs = Tail(Tail(@))], SubRec("zip", a, b))
    [] fr.f = "mkfin" ->        \* FinalizerSubscription{subscription: top, func: cell n}
         RetSub(PopV(st), SubRec("fin", TopV(st), fr.n))
    [] fr.f = "mkrefcnt" ->     \* RefCountSubscription{subject n, subscription: top}
         RetSub(PopV(st), SubRec("refcnt", fr.n, TopV(st)))
    [] fr.f = "retsub" ->       \* push an existing subscription id
         PushV(st, fr.n)
    [] fr.f = "dropv" -> PopV(st)
    [] OTHER -> Fault(st, "spec:unknown-subs-frame")

SubsFrames == {"unsub", "settake", "mtake", "hcancel", "tsunsub", "fincall", "rccheck",
               "optunsub", "mappend", "mappend2", "mappendv", "mkzip", "mkzipr", "mkfin",
               "mkrefcnt", "retsub", "dropv"}
=============================================================================
