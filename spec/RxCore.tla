------------------------------- MODULE RxCore -------------------------------
(***************************************************************************)
(* State of the rxRust abstract machine and the helpers every other module *)
(* uses.  The machine is a small stack machine: an API call of the user    *)
(* (a "stimulus") pushes frames, Step pops and executes one frame, Run     *)
(* iterates to completion (sequential suites) -- see RxMachine.            *)
(*                                                                         *)
(*   nodes  : observer instances and shared cells, created by subscribe    *)
(*   subj   : subjects (observers list + chamber, each with its own lock)  *)
(*   subs   : subscription records (tree returned by actual_subscribe)     *)
(*   multi  : MultiSubscription cells                                      *)
(*   tasks  : tasks handed to the scheduler (Remote + HandleInfo)          *)
(*   hots   : per hot `create` input, the subscriber slots stashed by the  *)
(*            harness closure                                              *)
(*   handles: what the test program holds: subscription ids by slot        *)
(*   log    : probe notifications produced by the current stimulus         *)
(*   cnt    : harness counters (tap calls, factory calls, finalizers, ...) *)
(***************************************************************************)
EXTENDS RxVal, TLC, Gen

Prog == ProgDef   \* the program table: a sequence of AST records, generated per suite (module Gen)

(* Known deviations of the pinned crate from its documented behaviour     *)
(* (ids of known_findings.jsonl).  Empty when a property is judged; the    *)
(* monitors are re-evaluated with the listed ids switched on only to tell  *)
(* an already recorded finding from a new violation.                       *)
CONSTANT KF

(* ----- AST access ----- *)
Op(x)  == Prog[x].op
PA(x)  == Prog[x].a
PB(x)  == Prog[x].b
PV(x)  == Prog[x].v
PL(x)  == Prog[x].l
S1(x)  == Prog[x].s1
S2(x)  == Prog[x].s2

(* ----- nodes ----- *)
(* k kind, d downstream node, c companion cell/subject, a b int params,    *)
(* v v2 value state, q q2 queue state, n int state, f g boolean state,     *)
(* h lock holder (0 = free), m lock mode ("rc" | "arc"), dead = consumed   *)
Node(k, d) == [k |-> k, d |-> d, c |-> 0, a |-> 0, b |-> 0, v |-> U, v2 |-> U,
               q |-> <<>>, q2 |-> <<>>, n |-> 0, f |-> TRUE, g |-> FALSE,
               h |-> 0, r |-> 0, m |-> "rc", dead |-> FALSE]

(* MutRc = Rc<RefCell>: rc_deref() is a shared borrow, rc_deref_mut() an exclusive one;          *)
(* MutArc = Arc<Mutex>: both lock the mutex.  h = exclusive holder, r = number of shared borrows *)
WHeld(nd) == nd.h # 0 \/ nd.r > 0                       \* an exclusive acquisition would fail
RHeld(nd) == nd.h # 0 \/ (nd.m = "arc" /\ nd.r > 0)    \* a shared acquisition would fail

(* ----- frames ----- *)
Fr(f, n, t, v, x) == [f |-> f, n |-> n, t |-> t, v |-> v, x |-> x]
Call(n, t, v)   == Fr("call", n, t, v, 0)
CallN(n, v)     == Call(n, "N", v)
CallC(n)        == Call(n, "C", U)
CallE(n, e)     == Call(n, "E", e)
Acq(n)          == Fr("acq", n, "", U, 0)
Rel(n)          == Fr("rel", n, "", U, 0)
AcqR(n)         == Fr("acqr", n, "", U, 0)      \* rc_deref()
RelR(n)         == Fr("relr", n, "", U, 0)
Body(n, t, v)   == Fr("body", n, t, v, 0)
Bump(c)         == Fr("bump", 0, "", U, c)
Sub(x, n)       == Fr("sub", n, "", U, x)
F0(f)           == Fr(f, 0, "", U, 0)
F1(f, n)        == Fr(f, n, "", U, 0)
F2(f, n, x)     == Fr(f, n, "", U, x)

(* ----- counters ----- *)
NCnt == 8
Cnt0 == [i \in 1..NCnt |-> 0]

(* ----- initial state ----- *)
St0 == [nodes |-> <<>>, subj |-> <<>>, subs |-> <<>>, multi |-> <<>>,
        tasks |-> <<>>, hots |-> <<>>, handles |-> <<>>, shared |-> <<>>,
        statcells |-> <<>>, futs |-> <<<<>>, <<>>>>, streams |-> <<<<>>, <<>>>>, timerlog |-> <<>>,
        now |-> 0, log |-> <<>>, cnt |-> Cnt0,
        stack |-> <<>>, vs |-> <<>>, ret |-> U, fault |-> "", arc |-> FALSE,
        cur |-> 1, conc |-> FALSE, overlap |-> FALSE, callno |-> 0, pcre |-> <<>>, hcre |-> <<>>, tcre |-> <<>>,    \* pcre: per probe <<thread, call>> that created it       \* running thread; multi-threaded instance; two threads inside one callback
        nprobe |-> 0]

Push(st, frs)     == [st EXCEPT !.stack = frs \o @]
PushV(st, x)      == [st EXCEPT !.vs = <<x>> \o @]
TopV(st)          == Head(st.vs)
PopV(st)          == [st EXCEPT !.vs = Tail(@)]
Fault(st, what)   == [st EXCEPT !.fault = what, !.stack = <<>>]
(* a query (is_finished / is_closed / len / peek ...) met a cell that is locked: re-entrant use in the     *)
(* sequential suites; in the multi-threaded instance the cell may be held by another thread and the query *)
(* simply has to wait ("qbusy": MC_Conc does not let the thread take this step now)                       *)
Busy(st)          == Fault(st, IF st.conc THEN "qbusy" ELSE "reentry")
NextNode(st)      == Len(st.nodes) + 1
AddNode(st, nd)   == [st EXCEPT !.nodes = Append(@, nd)]
NextSub(st)       == Len(st.subs) + 1
AddSub(st, rec)   == [st EXCEPT !.subs = Append(@, rec)]
SubRec(k, a, b)   == [k |-> k, a |-> a, b |-> b]
(* allocate a subscription record and leave its id on the value stack *)
RetSub(st, rec)   == PushV(AddSub(st, rec), NextSub(st))
RetUnit(st)       == PushV(st, 0)          \* sub id 0 is `()`
Mode(st)          == IF st.arc THEN "arc" ELSE "rc"

LogEntry(p, t, v, now) == [p |-> p, t |-> t, v |-> v, at |-> now]

(* sequence helpers *)
RECURSIVE MapCalls(_, _, _)
(* frames <<Call(s[1],t,v), Call(s[2],t,v), ...>> *)
MapCalls(s, t, v) == IF s = <<>> THEN <<>> ELSE <<Call(Head(s), t, v)>> \o MapCalls(Tail(s), t, v)

RECURSIVE MapF1(_, _)
MapF1(f, s) == IF s = <<>> THEN <<>> ELSE <<F1(f, Head(s))>> \o MapF1(f, Tail(s))

RECURSIVE CallNs(_, _)
(* <<Call(n,"N",vs[1]), ...>> *)
CallNs(n, vs) == IF vs = <<>> THEN <<>> ELSE <<CallN(n, Head(vs))>> \o CallNs(n, Tail(vs))
=============================================================================
