-------------------------------- MODULE Gen --------------------------------
(* Hand-written miniature of what tools/gen.py generates per suite (the     *)
(* generated module of the same name replaces this one in the work          *)
(* directory): subject -> take(2) -> map(+1), one case.                     *)
EXTENDS Integers
ProgDef == <<
  [op |-> "subject", a |-> 1, b |-> 0, v |-> <<"u">>, l |-> <<>>, s1 |-> 0, s2 |-> 0],
  [op |-> "take", a |-> 2, b |-> 0, v |-> <<"u">>, l |-> <<>>, s1 |-> 1, s2 |-> 0],
  [op |-> "map", a |-> 1, b |-> 0, v |-> <<"u">>, l |-> <<>>, s1 |-> 2, s2 |-> 0]
>>

Cases == <<
  [root |-> 3, forms |-> "both", lo |-> 1, hi |-> 3, nsubj |-> 1, nbeh |-> 0, nhotc |-> 0, L |-> 3, checks |-> {"C01", "C03"},
   pre |-> <<[k |-> "sub", a |-> 3, b |-> 0, t |-> "", v |-> <<"u">>]>>,
   threads |-> <<>>,
   alpha |-> <<[k |-> "emit", a |-> 1, b |-> 0, t |-> "N", v |-> <<"i", 0>>],
               [k |-> "emit", a |-> 1, b |-> 0, t |-> "N", v |-> <<"i", 1>>],
               [k |-> "emit", a |-> 1, b |-> 0, t |-> "E", v |-> <<"e", 1>>],
               [k |-> "emit", a |-> 1, b |-> 0, t |-> "C", v |-> <<"u">>]>>]
>>
=============================================================================
