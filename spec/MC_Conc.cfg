SPECIFICATION Spec
CONSTANT KF = {}
CONSTANT CaseLo = 1
CONSTANT CaseHi = 1
CONSTANT PreemptBound = 2
INVARIANT NoSpecFault
INVARIANT EmitLine
CHECK_DEADLOCK FALSE
