SPECIFICATION Spec
CONSTANT KF = {}
CONSTANT CaseLo = 1
CONSTANT CaseHi = 1
INVARIANT NoSpecFault
CHECK_DEADLOCK FALSE
