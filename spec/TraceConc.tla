------------------------------ MODULE TraceConc -----------------------------
(***************************************************************************)
(* Judges the OUTCOMES of executions of the real crate on real OS threads  *)
(* (harness/rxthreads; every distinct outcome of every explored schedule)  *)
(* with the thread-level properties.  One record per line of TRACE:        *)
(*   [c, probes : name -> <<<<t, v>>, ...>>, rets, stuck, overlap, fault,  *)
(*    late, cnt]                                                           *)
(* stuck   : some call never returned (deadlock, or parked for ever)       *)
(* overlap : two threads were inside the callback of one subscriber        *)
(* late    : a subscriber was called after the unsubscribe() of its        *)
(*           subscription had returned                                     *)
(***************************************************************************)
EXTENDS RxProps, Json, IOUtils

Recs == ndJsonDeserialize(IOEnv.TRACE)

ItemsP(log) == ItemsOf(log)
RECURSIVE Restrict(_, _)
Restrict(s, other) == IF s = <<>> THEN <<>> ELSE (IF SeqContains(other, Head(s)) THEN <<Head(s)>> ELSE <<>>) \o Restrict(Tail(s), other)
RECURSIVE NoDup(_)
NoDup(s) == IF s = <<>> THEN TRUE ELSE ~SeqContains(Tail(s), Head(s)) /\ NoDup(Tail(s))
IsSuffixSeq(a, b) == Len(a) <= Len(b) /\ a = SubSeq(b, Len(b) - Len(a) + 1, Len(b))

(* all subscribers observe concurrent emissions in ONE common order, each item at most once *)
CommonOrder(pr) ==
  \A p, q \in DOMAIN pr :
     /\ NoDup(ItemsP(pr[p]))
     /\ Restrict(ItemsP(pr[p]), ItemsP(pr[q])) = Restrict(ItemsP(pr[q]), ItemsP(pr[p]))

(* BehaviorSubject: a subscriber that joined late saw the then-current value first and every later item: *)
(* its items are a suffix of <<initial value>> \o (the items in the common order)                        *)
BehaviorOK(pr) ==
  \A p, q \in DOMAIN pr :
     Len(ItemsP(pr[p])) >= Len(ItemsP(pr[q])) => IsSuffixSeq(ItemsP(pr[q]), ItemsP(pr[p]))

(* C06: when the scripts only emit items and subscribe, every subscriber that was there before the threads *)
(* started receives every item; a subscriber that joins meanwhile receives a subset, nothing else           *)
RECURSIVE AllStims(_)
AllStims(ths) == IF ths = <<>> THEN <<>> ELSE Head(ths) \o AllStims(Tail(ths))
RECURSIVE EmittedItems(_)
EmittedItems(ss) == IF ss = <<>> THEN <<>>
                    ELSE (IF Head(ss).k = "emit" /\ Head(ss).t = "N" THEN <<Head(ss).v>> ELSE <<>>) \o EmittedItems(Tail(ss))
OnlyItemsAndSubs(ss) == \A i \in 1..Len(ss) : (ss[i].k = "emit" /\ ss[i].t = "N") \/ ss[i].k = "sub"
IsSetup(name) == name \in {"s1", "s2", "s3"}
Delivery(r, C) ==
  LET ss == AllStims(C.threads)
      em == EmittedItems(ss) IN
  (OnlyItemsAndSubs(ss) /\ Op(C.root) = "subject") =>
     \A p \in DOMAIN r.probes :
        /\ \A i \in 1..Len(ItemsP(r.probes[p])) : SeqContains(em, ItemsP(r.probes[p])[i])
        /\ IsSetup(p) => \A i \in 1..Len(em) : SeqContains(ItemsP(r.probes[p]), em[i])

(* C05 (thread part): when the scripts complete the outer subject and every hot inner and nobody unsubscribes or fails, *)
(* the flattened stream has completed once all calls have returned, and every synchronous inner selected by an outer    *)
(* item was delivered exactly once (a hand-over of the concurrency slot that gets lost shows here)                      *)
Completes(ss, a) == \E i \in 1..Len(ss) : ss[i].k = "emit" /\ ss[i].a = a /\ ss[i].t = "C"
Quiet(ss) == \A i \in 1..Len(ss) : ss[i].k = "emit" /\ ss[i].t # "E"
InnerAst(x, v) == PL(x)[(W(v) % Len(PL(x))) + 1]
RECURSIVE CountOf(_, _)
CountOf(s, v) == IF s = <<>> THEN 0 ELSE (IF Head(s) = v THEN 1 ELSE 0) + CountOf(Tail(s), v)
FlatComplete(r, C) ==
  LET ss == AllStims(C.threads)
      x == C.root IN
  (Op(x) = "flat" /\ Quiet(ss) /\ \A a \in 1..C.nsubj : Completes(ss, a)) =>
     \A p \in DOMAIN r.probes :
        LET lg == r.probes[p] IN
        /\ lg # <<>> /\ lg[Len(lg)][1] = "C"
        /\ \A i \in 1..Len(ss) :
              (ss[i].a = 1 /\ ss[i].t = "N" /\ Op(InnerAst(x, ss[i].v)) = "of") =>
                 CountOf(ItemsP(lg), PV(InnerAst(x, ss[i].v))) = 1

(* C11 (thread part): a subscriber of a shared observable that was there before the threads started and is not unsubscribed *)
(* by any of them receives every item the threads emit, whatever the other subscribers do meanwhile                         *)
SetupName(a) == IF a = 1 THEN "s1" ELSE IF a = 2 THEN "s2" ELSE IF a = 3 THEN "s3" ELSE "?"
ShareDelivery(r, C) ==
  LET ss == AllStims(C.threads)
      em == EmittedItems(ss)
      left == {SetupName(ss[i].a) : i \in {j \in 1..Len(ss) : ss[j].k = "unsub"}} IN
  (Op(C.root) = "share" /\ \A i \in 1..Len(ss) : ss[i].k \in {"sub", "unsub"} \/ (ss[i].k = "emit" /\ ss[i].t = "N")) =>
     \A p \in DOMAIN r.probes :
        (IsSetup(p) /\ p \notin left) => \A i \in 1..Len(em) : SeqContains(ItemsP(r.probes[p]), em[i])

(* C11 (thread part): the source of a published observable is subscribed by connect(), once, and by nothing else *)
PublishOnce(r, C) ==
  LET ss == AllStims(C.threads)
      connects == Len(SelectSeq(ss, LAMBDA x : x.k = "connect")) IN
  Op(C.root) = "publish" => r.cnt[CntDefer] = (IF connects > 0 THEN 1 ELSE 0)

(* C07 (thread part): the scripts feed items and the completion into the source of observe_on / delay while another thread *)
(* polls the tasks; after the epilogue has run the executor to idle the subscriber has received every item, in order, and   *)
(* the completion                                                                                                        *)
MovedAll(r, C) ==
  LET ss == AllStims(C.threads)
      em == EmittedItems(ss) IN
  (Op(C.root) \in {"observe_on", "delay"} /\ C.post # <<>> /\ Completes(ss, 1)
     /\ \A i \in 1..Len(ss) : ss[i].k \in {"run", "runall"} \/ (ss[i].k = "emit" /\ ss[i].t # "E")) =>
     \A p \in DOMAIN r.probes : IsSetup(p) => r.probes[p] = [i \in 1..Len(em) |-> <<"N", em[i]>>] \o <<<<"C", U>>>>

(* C12 / C06 (thread part), rules that hold whatever the known finding F14 allows:                                       *)
(*  - a subscriber that was there before the threads started receives every item the threads pass to the subject;       *)
(*  - a subscriber made by a thread receives every item that the SAME thread passes to the subject afterwards           *)
(*    (its subscribe call had returned before that emission began)                                                      *)
ItemOf(s) == IF s.k = "bnext" THEN s.v ELSE IF s.k = "emit" /\ s.t = "N" THEN s.v ELSE U
ThreadName(t, i) == ToString(t) \o "c" \o ToString(i)
OwnLater(r, C) ==
  \A t \in 1..Len(C.threads) : \A i \in 1..Len(C.threads[t]) : \A j \in 1..Len(C.threads[t]) :
     (i < j /\ C.threads[t][i].k = "sub" /\ ItemOf(C.threads[t][j]) # U) =>
        LET nm == "t" \o ThreadName(t, i) IN
        nm \in DOMAIN r.probes => SeqContains(ItemsP(r.probes[nm]), ItemOf(C.threads[t][j]))
SetupGetsAll(r, C) ==
  LET ss == AllStims(C.threads) IN
  (\A i \in 1..Len(ss) : ss[i].k \in {"bnext", "sub"} \/ (ss[i].k = "emit" /\ ss[i].t = "N")) =>
     \A p \in DOMAIN r.probes : IsSetup(p) =>
        \A i \in 1..Len(ss) : ItemOf(ss[i]) # U => SeqContains(ItemsP(r.probes[p]), ItemOf(ss[i]))

(* C04 (thread part): merge fed by one thread per input completes once both inputs have, and has forwarded every item *)
MergeAll(r, C) ==
  LET ss == AllStims(C.threads)
      em == EmittedItems(ss) IN
  (Op(C.root) = "merge" /\ Completes(ss, 1) /\ Completes(ss, 2) /\ \A i \in 1..Len(ss) : ss[i].k = "emit" /\ ss[i].t # "E") =>
     \A p \in DOMAIN r.probes : IsSetup(p) =>
        LET lg == r.probes[p] IN
        /\ lg # <<>> /\ lg[Len(lg)][1] = "C"
        /\ \A i \in 1..Len(em) : SeqContains(ItemsP(lg), em[i])

(* C20 (thread part): every item passed to the source by any thread reaches exactly one group subscriber (the one of its key) *)
GroupDelivery(r, C) ==
  LET ss == AllStims(C.threads)
      em == EmittedItems(ss) IN
  (Op(C.root) = "group_by" /\ \A i \in 1..Len(ss) : ss[i].k = "emit" /\ ss[i].t = "N") =>
     \A i \in 1..Len(em) :
        Cardinality({p \in DOMAIN r.probes : ~IsSetup(p) /\ SeqContains(ItemsP(r.probes[p]), em[i])}) = 1

Judge(r) ==
  LET C == Cases[r.c]
      crash == r.stuck \/ r.fault # ""
      rootop == Op(C.root)
      chk == C.checks
      isBeh == "C12" \in chk
      f(cond, id) == IF id \in chk /\ cond THEN <<id>> ELSE <<>>
  IN f(r.overlap \/ r.stuck \/ r.fault # "" \/ (~isBeh /\ ~CommonOrder(r.probes)), "C10")
     \o f(~r.stuck /\ r.fault = "" /\ ~Delivery(r, C), "C06")
     (* a subject call that panics or never returns has not delivered its item to every subscriber; a subscriber that is *)
     (* called after its unsubscribe() returned is not one of "the current subscribers"                                 *)
     \o f(Op(C.root) = "subject" /\ (r.stuck \/ r.fault # "" \/ r.late), "C06")
     \o f(~r.stuck /\ r.fault = "" /\ ~FlatComplete(r, C), "C05")
     \o f(~r.stuck /\ r.fault = "" /\ ~(ShareDelivery(r, C) /\ PublishOnce(r, C)), "C11")
     \o f(~r.stuck /\ r.fault = "" /\ ~MovedAll(r, C), "C07")
     \o f(~crash /\ ~MergeAll(r, C), "C04")
     \o f(crash /\ rootop \in {"merge", "zip", "combine_latest", "with_latest_from", "take_until", "skip_until", "sample", "buffer"}, "C04")
     \o f(crash /\ rootop = "group_by", "C20")
     \o f(~crash /\ ~GroupDelivery(r, C), "C20")
     \o f(r.late, "C02")
     (* C17, last clause, under threads: in a pipeline whose subscription is a composite (merge_all ...) a subscriber called  *)
     (* after unsubscribe() returned means that an addition racing with the teardown was left running                       *)
     \o f(r.late /\ Op(C.root) = "flat", "C17")
     \o f(r.late \/ r.stuck \/ r.fault # "", "C19")      \* a cancelled task's body (or what it subscribed) acts after unsubscribe() returned
     \o f(r.cnt[CntFin] # 1, "C15")
     \o f("F14" \notin KF /\ ~BehaviorOK(r.probes), "C12")
     \o f(rootop = "behavior" /\ ~crash /\ ~(OwnLater(r, C) /\ SetupGetsAll(r, C)), "C12")
     \o f(rootop = "subject" /\ ~crash /\ ~OwnLater(r, C), "C06")
     (* a call that panics or never returns has not delivered what it owed: charged to the delivery property of the case *)
     \o f(crash /\ rootop = "flat", "C05")
     \o f(crash /\ rootop \in {"share", "publish"}, "C11")
     \o f(crash /\ rootop = "behavior", "C12")
     \o f(crash /\ rootop \in {"observe_on", "delay"}, "C07")
     \o f(r.late /\ rootop \in {"subscribe_on", "delay_subscription", "subject"}, "C17")      \* (late: also after is_closed() answered true)
     \o f(r.stuck, "C14")
     (* wait_for_end returns only when the source has terminated: the status asked right afterwards by the same thread is not "running" *)
     \o f(\E t \in 1..Len(C.threads) : \E i \in 1..(Len(C.threads[t]) - 1) :
            C.threads[t][i].k = "stwait" /\ C.threads[t][i + 1].k = "stq" /\ Len(r.rets[t]) > i /\ r.rets[t][i + 1] = I(0), "C14")

VARIABLE i
Init == i = 1
Next == /\ i <= Len(Recs)
        /\ PrintT(ToJson([i |-> i, c |-> Recs[i].c, bad |-> Judge(Recs[i])]))
        /\ i' = i + 1
Spec == Init /\ [][Next]_i
AllJudged == TLCGet("stats").diameter = Len(Recs) + 1
=============================================================================
