------------------------------ MODULE TraceConc -----------------------------
(***************************************************************************)
(* Judges the OUTCOMES of executions of the real crate on real OS threads  *)
(* (harness/rxthreads; every distinct outcome of every explored schedule)  *)
(* with the thread-level properties.  One record per line of TRACE:        *)
(*   [c, probes : name -> <<<<t, v>>, ...>>, rets, stuck, overlap, fault,  *)
(*    late, cnt]                                                           *)
(* stuck   : some call never returned (deadlock, or parked for ever)       *)
(* overlap : two threads were inside the callback of one subscriber        *)
(* late    : a subscriber was called after the unsubscribe() of its        *)
(*           subscription had returned                                     *)
(***************************************************************************)
EXTENDS RxProps, Json, IOUtils

Recs == ndJsonDeserialize(IOEnv.TRACE)

ItemsP(log) == ItemsOf(log)
RECURSIVE Restrict(_, _)
Restrict(s, other) == IF s = <<>> THEN <<>> ELSE (IF SeqContains(other, Head(s)) THEN <<Head(s)>> ELSE <<>>) \o Restrict(Tail(s), other)
RECURSIVE NoDup(_)
NoDup(s) == IF s = <<>> THEN TRUE ELSE ~SeqContains(Tail(s), Head(s)) /\ NoDup(Tail(s))
IsSuffixSeq(a, b) == Len(a) <= Len(b) /\ a = SubSeq(b, Len(b) - Len(a) + 1, Len(b))

(* all subscribers observe concurrent emissions in ONE common order, each item at most once *)
CommonOrder(pr) ==
  \A p, q \in DOMAIN pr :
     /\ NoDup(ItemsP(pr[p]))
     /\ Restrict(ItemsP(pr[p]), ItemsP(pr[q])) = Restrict(ItemsP(pr[q]), ItemsP(pr[p]))

(* BehaviorSubject: a subscriber that joined late saw the then-current value first and every later item: *)
(* its items are a suffix of <<initial value>> \o (the items in the common order)                        *)
BehaviorOK(pr) ==
  \A p, q \in DOMAIN pr :
     Len(ItemsP(pr[p])) >= Len(ItemsP(pr[q])) => IsSuffixSeq(ItemsP(pr[q]), ItemsP(pr[p]))

(* C06: when the scripts only emit items and subscribe, every subscriber that was there before the threads *)
(* started receives every item; a subscriber that joins meanwhile receives a subset, nothing else           *)
RECURSIVE AllStims(_)
AllStims(ths) == IF ths = <<>> THEN <<>> ELSE Head(ths) \o AllStims(Tail(ths))
RECURSIVE EmittedItems(_)
EmittedItems(ss) == IF ss = <<>> THEN <<>>
                    ELSE (IF Head(ss).k = "emit" /\ Head(ss).t = "N" THEN <<Head(ss).v>> ELSE <<>>) \o EmittedItems(Tail(ss))
OnlyItemsAndSubs(ss) == \A i \in 1..Len(ss) : (ss[i].k = "emit" /\ ss[i].t = "N") \/ ss[i].k = "sub"
IsSetup(name) == name \in {"s1", "s2", "s3"}
Delivery(r, C) ==
  LET ss == AllStims(C.threads)
      em == EmittedItems(ss) IN
  (OnlyItemsAndSubs(ss) /\ Op(C.root) = "subject") =>
     \A p \in DOMAIN r.probes :
        /\ \A i \in 1..Len(ItemsP(r.probes[p])) : SeqContains(em, ItemsP(r.probes[p])[i])
        /\ IsSetup(p) => \A i \in 1..Len(em) : SeqContains(ItemsP(r.probes[p]), em[i])

Judge(r) ==
  LET C == Cases[r.c]
      chk == C.checks
      isBeh == "C12" \in chk
      f(cond, id) == IF id \in chk /\ cond THEN <<id>> ELSE <<>>
  IN f(r.overlap \/ r.stuck \/ r.fault # "" \/ (~isBeh /\ ~CommonOrder(r.probes)), "C10")
     \o f(~r.stuck /\ r.fault = "" /\ ~Delivery(r, C), "C06")
     \o f(r.late, "C02")
     \o f(r.late \/ r.stuck \/ r.fault # "", "C19")      \* a cancelled task's body (or what it subscribed) acts after unsubscribe() returned
     \o f(r.cnt[CntFin] # 1, "C15")
     \o f("F14" \notin KF /\ ~BehaviorOK(r.probes), "C12")
     \o f(r.stuck, "C14")

VARIABLE i
Init == i = 1
Next == /\ i <= Len(Recs)
        /\ PrintT(ToJson([i |-> i, c |-> Recs[i].c, bad |-> Judge(Recs[i])]))
        /\ i' = i + 1
Spec == Init /\ [][Next]_i
AllJudged == TLCGet("stats").diameter = Len(Recs) + 1
=============================================================================
