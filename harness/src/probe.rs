//! Recording probe observer + harness counters, shared by both forms.
use crate::val::Val;
use rxrust::prelude::*;
use std::sync::atomic::{AtomicI64, AtomicUsize, Ordering};
use std::sync::{Arc, Mutex};

#[derive(Clone, Debug, PartialEq)]
pub struct Obs {
  pub p: i64,
  pub t: char, // 'N' 'E' 'C'
  pub v: Val,
  pub at: i64,
}

pub const NCNT: usize = 8;

/// Everything the probes and instrumented closures write to.
pub struct Shared {
  pub log: Mutex<Vec<Obs>>,
  pub cnt: [AtomicI64; NCNT],
  pub nprobe: AtomicUsize,
  pub now: AtomicI64,
}

impl Shared {
  pub fn new() -> Arc<Shared> {
    Arc::new(Shared {
      log: Mutex::new(vec![]),
      cnt: Default::default(),
      nprobe: AtomicUsize::new(0),
      now: AtomicI64::new(0),
    })
  }
  pub fn bump(&self, c: i64) {
    if c > 0 {
      self.cnt[(c - 1) as usize].fetch_add(1, Ordering::SeqCst);
    }
  }
  pub fn counters(&self) -> Vec<i64> {
    self.cnt.iter().map(|c| c.load(Ordering::SeqCst)).collect()
  }
  pub fn take_log(&self) -> Vec<Obs> {
    // a poisoned log (panic inside a probe callback is impossible, but a panic
    // while a guard is alive elsewhere is data) is still readable
    let mut g = match self.log.lock() {
      Ok(g) => g,
      Err(p) => p.into_inner(),
    };
    std::mem::take(&mut *g)
  }
  pub fn record(&self, p: i64, t: char, v: Val) {
    let at = self.now.load(Ordering::SeqCst);
    let mut g = match self.log.lock() {
      Ok(g) => g,
      Err(p) => p.into_inner(),
    };
    g.push(Obs { p, t, v, at });
  }
  pub fn new_probe_id(&self) -> i64 {
    (self.nprobe.fetch_add(1, Ordering::SeqCst) + 1) as i64
  }
}

/// Recording subscriber. `on_next` is the scripted reaction of spec section 3.3
/// (boxed FnMut; `+ Send` in the thread-safe form).
pub struct Probe<F> {
  pub id: i64,
  pub sh: Arc<Shared>,
  pub on_next: Option<F>,
}

pub type ReactL = Box<dyn FnMut(&Val)>;
pub type ReactT = Box<dyn FnMut(&Val) + Send>;
pub type ProbeL = Probe<ReactL>;
pub type ProbeT = Probe<ReactT>;

impl<F> Probe<F> {
  pub fn new(sh: &Arc<Shared>, on_next: Option<F>) -> Probe<F> {
    Probe { id: sh.new_probe_id(), sh: sh.clone(), on_next }
  }
}

impl<F: FnMut(&Val)> Observer<Val, Val> for Probe<F> {
  fn next(&mut self, v: Val) {
    self.sh.record(self.id, 'N', v.clone());
    if let Some(r) = self.on_next.as_mut() {
      r(&v)
    }
  }
  fn error(self, e: Val) {
    self.sh.record(self.id, 'E', e);
  }
  fn complete(self) {
    self.sh.record(self.id, 'C', Val::U);
  }
  fn is_finished(&self) -> bool {
    false
  }
}
