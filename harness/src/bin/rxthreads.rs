//! rxthreads: explores the interleavings of the thread cases on REAL OS threads (stepped at the
//! hook points of the crate) and compares every outcome with the outcomes the TLA+ instance
//! MC_Conc allows for that case.
//!
//!   rxthreads --cases cases.json --model model_outcomes.json --out result.json [--bound 2] [--max-runs 4000]
use rxverif::build::Ast;
use rxverif::conc::*;
use rxverif::exec::{install_panic_hook, Stim};
use serde_json::{json, Value as J};
use std::collections::{BTreeMap, BTreeSet};

fn arg(name: &str) -> Option<String> {
  let a: Vec<String> = std::env::args().collect();
  a.iter().position(|x| x == name).and_then(|i| a.get(i + 1).cloned())
}

fn main() {
  install_panic_hook();
  rxrust::verif::set_hooks(Box::new(ConcHooks));
  rxverif::vsched::install_timer();
  let cases: J = serde_json::from_reader(std::fs::File::open(arg("--cases").expect("--cases")).unwrap()).unwrap();
  let cases = cases["cases"].as_array().unwrap().clone();
  let model: J = arg("--model").map(|m| serde_json::from_reader(std::fs::File::open(m).unwrap()).unwrap()).unwrap_or(json!({}));
  let bound: usize = arg("--bound").map(|s| s.parse().unwrap()).unwrap_or(2);
  let max_runs: usize = arg("--max-runs").map(|s| s.parse().unwrap()).unwrap_or(4000);
  let only: Option<usize> = arg("--case").map(|s| s.parse().unwrap());
  let mut out_cases = vec![];
  for (ci, case) in cases.iter().enumerate() {
    if only.map_or(false, |o| o != ci + 1) {
      continue;
    }
    let spec = CaseSpec {
      prog: case["prog"].as_array().unwrap().iter().map(Ast::from_json).collect(),
      off: case["off"].as_i64().unwrap_or(0),
      nsubj: case["cfg"]["nsubj"].as_u64().unwrap_or(0) as usize,
      nbeh: case["cfg"]["nbeh"].as_u64().unwrap_or(0) as usize,
      nhotc: case["cfg"]["nhotc"].as_u64().unwrap_or(0) as usize,
      pre: case["pre"].as_array().unwrap().iter().map(Stim::from_json).collect(),
      post: case["post"].as_array().map(|a| a.iter().map(Stim::from_json).collect()).unwrap_or_default(),
      threads: case["threads"].as_array().unwrap().iter().map(|t| t.as_array().unwrap().iter().map(Stim::from_json).collect()).collect(),
    };
    // --replay "<t1,t2,...>": run the given schedule once and print what happened
    if let Some(sched) = arg("--replay") {
      let prefix: Vec<usize> = sched.split(',').filter(|x| !x.is_empty()).map(|x| x.trim().parse().unwrap()).collect();
      let r = run_once(&spec, &prefix);
      println!("{}", serde_json::to_string_pretty(&json!({"outcome": outcome(&r), "sched": r.decisions.iter().map(|d| d.1).collect::<Vec<_>>(), "events": r.events})).unwrap());
      return;
    }
    let allowed: BTreeSet<String> = model[(ci + 1).to_string()].as_array().map(|a| a.iter().map(|o| o.to_string()).collect()).unwrap_or_default();
    let mut seen: BTreeMap<String, (u64, J, J)> = BTreeMap::new();
    let t0 = std::time::Instant::now();
    let (runs, complete) = explore(&spec, bound, max_runs, |r| {
      let o = outcome(r);
      let key = o.to_string();
      let e = seen.entry(key).or_insert_with(|| (0, o.clone(), json!({"events": r.events, "sched": r.decisions.iter().map(|d| d.1).collect::<Vec<_>>()})));
      e.0 += 1;
    });
    let outcomes: Vec<J> = seen
      .iter()
      .map(|(k, (n, o, ex))| json!({"n": n, "outcome": o, "in_model": allowed.contains(k), "example": ex}))
      .collect();
    let unexpected = outcomes.iter().filter(|o| !o["in_model"].as_bool().unwrap()).count();
    eprintln!(
      "case {} {}: runs={} complete={} outcomes={} (model {}) not-in-model={} {:.1}s",
      ci + 1,
      case["tag"].as_str().unwrap_or(""),
      runs,
      complete,
      outcomes.len(),
      allowed.len(),
      unexpected,
      t0.elapsed().as_secs_f32()
    );
    out_cases.push(json!({"c": ci + 1, "tag": case["tag"], "runs": runs, "complete": complete, "outcomes": outcomes}));
  }
  std::fs::write(arg("--out").expect("--out"), serde_json::to_string(&json!({"cases": out_cases})).unwrap()).unwrap();
}
