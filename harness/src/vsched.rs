//! Harness scheduler and virtual time.
//!
//! * `VSched` is a scheduler the crate accepts (`impl Scheduler<T>`): every task
//!   gets its own `LocalPool`, so the harness decides which task is polled next.
//! * The crate is built WITHOUT its `timer` feature, so `NEW_TIMER_FN` is ours:
//!   timers are `VTimer`s on a virtual clock whose deadline is fixed at creation
//!   (as `futures_time::sleep` does); every requested duration is recorded.
//! * Scripted futures / streams for `from_future` / `from_stream`.
use crate::val::Val;
use futures::executor::{LocalPool, LocalSpawner};
use futures::future::BoxFuture;
use futures::Stream;
use rxrust::prelude::*;
use std::cell::RefCell;
use std::collections::VecDeque;
use std::future::Future;
use std::pin::Pin;
use std::sync::Mutex;
use std::task::{Context, Poll, Waker};

struct TimerSlot {
  deadline: i64,
  waker: Option<Waker>,
  done: bool,
}

pub struct Clock {
  pub now: i64,
  timers: Vec<TimerSlot>,
  pub requested: Vec<i64>,
}

static CLOCK: Mutex<Clock> = Mutex::new(Clock { now: 0, timers: vec![], requested: vec![] });

fn clock() -> std::sync::MutexGuard<'static, Clock> {
  match CLOCK.lock() {
    Ok(g) => g,
    Err(p) => p.into_inner(),
  }
}

/// length of one virtual unit in nanoseconds: one second by default; the
/// replayer also runs timed behaviours with a unit of one nanosecond (no
/// `_at` operators there: `Instant::now()` is real), so that code that
/// truncates durations to a coarser grain is seen
static UNIT_NS: std::sync::atomic::AtomicU64 = std::sync::atomic::AtomicU64::new(1_000_000_000);
pub fn set_unit_ns(n: u64) {
  UNIT_NS.store(n.max(1), std::sync::atomic::Ordering::SeqCst);
}
fn unit_ns() -> u128 {
  UNIT_NS.load(std::sync::atomic::Ordering::SeqCst) as u128
}
pub fn units(d: Duration) -> i64 {
  let u = unit_ns();
  ((d.as_nanos() + u / 2) / u) as i64
}
pub fn dur(u: i64) -> Duration {
  Duration::from_nanos((u.max(0) as u128 * unit_ns()) as u64)
}

struct VTimer(usize);

impl Future for VTimer {
  type Output = ();
  fn poll(self: Pin<&mut Self>, cx: &mut Context<'_>) -> Poll<()> {
    let mut c = clock();
    let now = c.now;
    let t = &mut c.timers[self.0];
    if now >= t.deadline {
      t.done = true;
      t.waker = None;
      drop(c);
      activity();
      Poll::Ready(())
    } else {
      t.waker = Some(cx.waker().clone());
      Poll::Pending
    }
  }
}

fn new_timer(d: Duration) -> BoxFuture<'static, ()> {
  let mut c = clock();
  let u = units(d);
  c.requested.push(u);
  let deadline = c.now + u;
  c.timers.push(TimerSlot { deadline, waker: None, done: false });
  Box::pin(VTimer(c.timers.len() - 1))
}

pub fn install_timer() {
  let _ = rxrust::scheduler::NEW_TIMER_FN.set(new_timer);
}

struct TaskSlot {
  pool: LocalPool,
  done: bool,
}

struct Script {
  queue: VecDeque<(char, Val)>,
  waker: Option<Waker>,
}

/// Process-wide table with the access pattern of a thread-local `RefCell`. The executor state is shared by all
/// threads of a behaviour: in the multi-threaded harness a task scheduled by one thread may be polled by another
/// one (a cross-thread executor). `LocalPool` is `!Send` only because of its `Rc` plumbing; the pools are touched by
/// one thread at a time (under this mutex, or taken out of the table while being polled), and in the multi-threaded
/// harness every future inside them is `Send` (thread-safe form).
pub struct Shared<T>(Mutex<Option<SendCell<T>>>, fn() -> T);
pub struct SendCell<T>(RefCell<T>);
unsafe impl<T> Send for SendCell<T> {}
impl<T> Shared<T> {
  pub fn with<R>(&self, f: impl FnOnce(&RefCell<T>) -> R) -> R {
    let mut g = match self.0.lock() {
      Ok(g) => g,
      Err(p) => p.into_inner(),
    };
    if g.is_none() {
      *g = Some(SendCell(RefCell::new((self.1)())));
    }
    f(&g.as_ref().unwrap().0)
  }
}
static POOLS: Shared<Vec<TaskSlot>> = Shared(Mutex::new(None), Vec::new);
static FUTS: Shared<Vec<Script>> = Shared(Mutex::new(None), Vec::new);
static STREAMS: Shared<Vec<Script>> = Shared(Mutex::new(None), Vec::new);

/// forget everything of the previous behaviour
pub fn reset() {
  {
    let mut c = clock();
    c.now = 0;
    c.timers.clear();
    c.requested.clear();
  }
  // dropping a pool drops its (possibly unfinished) task; leak instead if that could panic
  POOLS.with(|p| {
    let old = std::mem::take(&mut *p.borrow_mut());
    std::mem::forget(old);
  });
  let fresh = || (0..2).map(|_| Script { queue: VecDeque::new(), waker: None }).collect::<Vec<_>>();
  FUTS.with(|f| *f.borrow_mut() = fresh());
  STREAMS.with(|f| *f.borrow_mut() = fresh());
}

pub fn now() -> i64 {
  clock().now
}

pub fn take_requested() -> Vec<i64> {
  std::mem::take(&mut clock().requested)
}

/// every leaf future of ours hands its waker back: a (possibly spurious) poll of any task can be forced
fn wake_all() {
  let wakers: Vec<Waker> = {
    let c = clock();
    c.timers.iter().filter(|t| !t.done).filter_map(|t| t.waker.clone()).collect()
  };
  for w in wakers {
    w.wake();
  }
  for tab in [&FUTS, &STREAMS] {
    let ws: Vec<Waker> = tab.with(|f| f.borrow().iter().filter_map(|s| s.waker.clone()).collect());
    for w in ws {
      w.wake();
    }
  }
}

pub fn advance(dt: i64) {
  clock().now += dt;
}

pub fn task_count() -> usize {
  POOLS.with(|p| p.borrow().len())
}

pub fn live_tasks() -> i64 {
  POOLS.with(|p| p.borrow().iter().filter(|t| !t.done).count() as i64)
}

/// poll task k (1-based) once if it has not finished; true if it finished now
pub fn run_task(k: usize) -> bool {
  wake_all();
  // the pool must not stay borrowed while the task runs: tasks spawn tasks
  let taken = POOLS.with(|p| {
    let mut p = p.borrow_mut();
    if k == 0 || k > p.len() || p[k - 1].done {
      None
    } else {
      Some(std::mem::replace(&mut p[k - 1].pool, LocalPool::new()))
    }
  });
  match taken {
    None => false,
    Some(mut pool) => {
      let finished = pool.try_run_one();
      POOLS.with(|p| {
        let mut p = p.borrow_mut();
        p[k - 1].pool = pool;
        if finished {
          p[k - 1].done = true;
        }
      });
      finished
    }
  }
}

/// the prompt executor: sweep all unfinished tasks in creation order (tasks spawned meanwhile
/// included) until a whole sweep changes nothing
pub fn run_all() {
  loop {
    let before = (live_tasks(), task_count(), ACTIVITY.with(|a| *a.borrow()));
    let mut k = 1;
    while k <= task_count() {
      run_task(k);
      k += 1;
    }
    let after = (live_tasks(), task_count(), ACTIVITY.with(|a| *a.borrow()));
    if before == after {
      break;
    }
  }
}

thread_local! {
  /// where the scripted streams note that an item was taken from them (the log of the current behaviour)
  static STREAM_LOG: RefCell<Option<std::sync::Arc<crate::probe::Shared>>> = RefCell::new(None);
}
pub fn set_stream_log(sh: Option<std::sync::Arc<crate::probe::Shared>>) {
  STREAM_LOG.with(|l| *l.borrow_mut() = sh);
}
/// bumped whenever one of our leaf futures makes progress
static ACTIVITY: Shared<u64> = Shared(Mutex::new(None), || 0);
fn activity() {
  ACTIVITY.with(|a| *a.borrow_mut() += 1);
}

#[derive(Clone, Copy, Default)]
pub struct VSched;

impl<T> Scheduler<T> for VSched
where
  T: Future,
  LocalSpawner: Scheduler<T>,
{
  fn schedule(&self, task: T, delay: Option<Duration>) -> TaskHandle<T::Output> {
    let pool = LocalPool::new();
    let h = pool.spawner().schedule(task, delay);
    POOLS.with(|p| p.borrow_mut().push(TaskSlot { pool, done: false }));
    activity();
    h
  }
}

// ---------------------------------------------------------------- scripted future / stream
pub fn resolve_future(a: usize, t: char, v: Val) {
  FUTS.with(|f| f.borrow_mut()[a - 1].queue.push_back((t, v)));
}
pub fn push_stream(a: usize, t: char, v: Val) {
  STREAMS.with(|f| f.borrow_mut()[a - 1].queue.push_back((t, v)));
}

#[derive(Clone)]
pub struct ScriptFuture(pub usize);
impl Future for ScriptFuture {
  type Output = Result<Val, Val>;
  fn poll(self: Pin<&mut Self>, cx: &mut Context<'_>) -> Poll<Self::Output> {
    FUTS.with(|f| {
      let mut f = f.borrow_mut();
      let s = &mut f[self.0 - 1];
      match s.queue.front().cloned() {
        Some((t, v)) => {
          s.waker = None;
          activity();
          // every time the future yields its result is counted (C13: once per subscription)
          if let Some(sh) = STREAM_LOG.with(|l| l.borrow().clone()) {
            sh.bump(6);
          }
          Poll::Ready(if t == 'E' { Err(v) } else { Ok(v) })
        }
        None => {
          s.waker = Some(cx.waker().clone());
          Poll::Pending
        }
      }
    })
  }
}

/// future of a plain value (from_future)
#[derive(Clone)]
pub struct ScriptFutureOk(pub usize);
impl Future for ScriptFutureOk {
  type Output = Val;
  fn poll(self: Pin<&mut Self>, cx: &mut Context<'_>) -> Poll<Val> {
    match Pin::new(&mut ScriptFuture(self.0)).poll(cx) {
      Poll::Ready(Ok(v)) | Poll::Ready(Err(v)) => Poll::Ready(v),
      Poll::Pending => Poll::Pending,
    }
  }
}

#[derive(Clone)]
pub struct ScriptStream(pub usize);
impl Stream for ScriptStream {
  type Item = Result<Val, Val>;
  fn poll_next(self: Pin<&mut Self>, cx: &mut Context<'_>) -> Poll<Option<Self::Item>> {
    STREAMS.with(|f| {
      let mut f = f.borrow_mut();
      let s = &mut f[self.0 - 1];
      match s.queue.pop_front() {
        Some((t, v)) => {
          activity();
          if t == 'N' {
            // every item taken from the stream is an observation, ordered with the notifications
            if let Some(sh) = STREAM_LOG.with(|l| l.borrow().clone()) {
              sh.record(0, 'I', Val::U);
            }
          }
          Poll::Ready(match t {
            'N' => Some(Ok(v)),
            'E' => Some(Err(v)),
            _ => None,
          })
        }
        None => {
          s.waker = Some(cx.waker().clone());
          Poll::Pending
        }
      }
    })
  }
}

/// stream of plain values (from_stream): an error in the script ends it
#[derive(Clone)]
pub struct ScriptStreamOk(pub usize);
impl Stream for ScriptStreamOk {
  type Item = Val;
  fn poll_next(self: Pin<&mut Self>, cx: &mut Context<'_>) -> Poll<Option<Val>> {
    match Pin::new(&mut ScriptStream(self.0)).poll_next(cx) {
      Poll::Ready(Some(Ok(v))) => Poll::Ready(Some(v)),
      Poll::Ready(_) => Poll::Ready(None),
      Poll::Pending => Poll::Pending,
    }
  }
}
