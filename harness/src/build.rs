//! Builds real rxRust pipelines from the program table (the same table the TLA+
//! machine interprets), in the local form and in the thread-safe form.
use crate::probe::*;
use crate::val::*;
use crate::vsched::{dur, ScriptFuture, ScriptFutureOk, ScriptStream, ScriptStreamOk, VSched};
use rxrust::observable;
use rxrust::ops::throttle::ThrottleEdge;
use rxrust::ops::box_it::{CloneableBoxOp, CloneableBoxOpThreads};
use rxrust::prelude::*;
use rxrust::observer::{BoxObserver, BoxObserverThreads};
use serde_json::Value as J;
use std::cell::RefCell;
use std::convert::Infallible;
use std::rc::Rc;
use std::sync::{Arc, Mutex};

pub type LBox = CloneableBoxOp<'static, Val, Val>;
pub type TBox = CloneableBoxOpThreads<Val, Val>;
pub type LSubject = Subject<'static, Val, Val>;
pub type TSubject = SubjectThreads<Val, Val>;
pub type LSubscriber = Subscriber<BoxObserver<'static, Val, Val>>;
pub type TSubscriber = SubscriberThreads<BoxObserverThreads<Val, Val>>;

#[derive(Clone, Debug)]
pub struct Ast {
  pub op: String,
  pub a: i64,
  pub b: i64,
  pub v: Val,
  pub l: Vec<J>,
  pub s1: usize,
  pub s2: usize,
}

impl Ast {
  pub fn from_json(j: &J) -> Ast {
    Ast {
      op: j["op"].as_str().unwrap().to_string(),
      a: j["a"].as_i64().unwrap_or(0),
      b: j["b"].as_i64().unwrap_or(0),
      v: if j["v"].is_array() { Val::from_json(&j["v"]) } else { Val::U },
      l: j["l"].as_array().cloned().unwrap_or_default(),
      s1: j["s1"].as_u64().unwrap_or(0) as usize,
      s2: j["s2"].as_u64().unwrap_or(0) as usize,
    }
  }
  fn vals(&self) -> Vec<Val> {
    self.l.iter().map(Val::from_json).collect()
  }
  /// script of a cold `create`: [[t, v], ...]
  fn script(&self) -> Vec<(char, Val)> {
    self
      .l
      .iter()
      .map(|m| (m[0].as_str().unwrap().chars().next().unwrap(), Val::from_json(&m[1])))
      .collect()
  }
  fn ids(&self) -> Vec<usize> {
    self.l.iter().map(|x| x.as_u64().unwrap() as usize).collect()
  }
}

fn inf(e: Infallible) -> Val {
  match e {}
}

/// Environment of one behaviour, local form.
pub struct EnvL {
  pub sh: Arc<Shared>,
  pub prog: Rc<Vec<Ast>>,
  pub subjects: Vec<LSubject>,
  pub behaviors: Vec<BehaviorSubject<Val, LSubject>>,
  pub hotc: Vec<Rc<RefCell<Vec<LSubscriber>>>>,
  pub groups: Arc<Mutex<GroupReg>>,
  /// one shared observable VALUE per `share` node of the program, whichever root reaches it
  pub shares: Mutex<std::collections::BTreeMap<usize, LBox>>,
}

/// Environment of one behaviour, thread-safe form.
pub struct EnvT {
  pub sh: Arc<Shared>,
  pub prog: Arc<Vec<Ast>>,
  pub subjects: Vec<TSubject>,
  pub behaviors: Vec<BehaviorSubject<Val, TSubject>>,
  pub hotc: Vec<Arc<Mutex<Vec<TSubscriber>>>>,
  pub groups: Arc<Mutex<GroupReg>>,
  pub shares: Mutex<std::collections::BTreeMap<usize, TBox>>,
}

/// numbering of the groups announced by group_by (the specification numbers the per-group subjects in creation order):
/// the key function of every group_by subscription notes each new key here, just before the group is announced
#[derive(Default)]
pub struct GroupReg {
  pub count: i64,
  pub last: i64,
}

pub type LGroup = rxrust::ops::group_by::KeyObservable<Val, LSubject>;
pub type TGroup = rxrust::ops::group_by::KeyObservable<Val, TSubject>;
pub type LGBox = CloneableBoxOp<'static, LGroup, Val>;
pub type TGBox = CloneableBoxOpThreads<TGroup, Val>;

/// is AST x a stream of groups (group_by, possibly below operators that act on the stream of groups)?
pub fn is_groups(prog: &[Ast], x: usize) -> bool {
  let n = &prog[x - 1];
  match n.op.as_str() {
    "group_by" => true,
    "take" | "skip" | "take_until" => is_groups(prog, n.s1),
    _ => false,
  }
}

macro_rules! stash_push {
  (local, $st:expr, $s:expr) => {
    $st.borrow_mut().push($s)
  };
  (threads, $st:expr, $s:expr) => {
    $st.lock().unwrap().push($s)
  };
}

macro_rules! builder {
  ($fname:ident, $gname:ident, $env:ty, $bx:ty, $gbx:ty, $subject:ty, $form:ident, $subscriber:ty,
   $merge:ident, $zip:ident, $combine_latest:ident, $with_latest_from:ident,
   $take_until:ident, $skip_until:ident, $sample:ident,
   $merge_all:ident, $concat_all:ident, $flatten:ident, $flat_map:ident, $concat_map:ident,
   $finalize:ident, $share:ident, $delay:ident, $delay_at:ident, $observe_on:ident) => {
    /// a stream of groups: group_by, possibly below take / skip / take_until on the stream of groups
    pub fn $gname(env: &$env, x: usize) -> $gbx {
      let ast = env.prog[x - 1].clone();
      let a = ast.a;
      match ast.op.as_str() {
        "group_by" => {
          let reg = env.groups.clone();
          let base = (env.subjects.len() + env.behaviors.len()) as i64;
          let mut seen: Vec<Val> = vec![];
          let mut asked = 0i64;
          $fname(env, ast.s1)
            .group_by::<_, _, $subject>(move |v: &Val| {
              // key function 3 is stateful (the operator takes an FnMut): 0, 1, 0, 1, ...
              let k = if a == 3 { Val::I(asked % 2) } else { keyf(a, v) };
              asked += 1;
              if !seen.contains(&k) {
                seen.push(k.clone());
                let mut r = reg.lock().unwrap();
                r.count += 1;
                r.last = base + r.count;
              }
              k
            })
            .box_it()
        }
        "take" => $gname(env, ast.s1).take(a as usize).box_it(),
        "skip" => $gname(env, ast.s1).skip(a as usize).box_it(),
        "take_until" => $gname(env, ast.s1).$take_until($fname(env, ast.s2)).box_it(),
        other => panic!("harness: {other} on a stream of groups"),
      }
    }

    pub fn $fname(env: &$env, x: usize) -> $bx {
      let ast = env.prog[x - 1].clone();
      let sh = env.sh.clone();
      let (a, b) = (ast.a, ast.b);
      let src = |i: usize| $fname(env, i);
      match ast.op.as_str() {
        // ------------------------------------------------ sources
        "of" => observable::of(ast.v.clone()).on_error_map(inf).box_it(),
        "of_option" => {
          let o = match &ast.v {
            Val::Some(x) => Some((**x).clone()),
            _ => None,
          };
          observable::of_option(o).on_error_map(inf).box_it()
        }
        "of_result" => {
          let r: Result<Val, Val> = match &ast.v {
            Val::Some(x) => Ok((**x).clone()),
            e => Err(e.clone()),
          };
          observable::of_result(r).box_it()
        }
        "of_fn" => {
          let v = ast.v.clone();
          observable::of_fn(move || {
            sh.bump(b);
            v
          })
          .on_error_map(inf)
          .box_it()
        }
        "start" => {
          let v = ast.v.clone();
          observable::start(move || {
            sh.bump(b);
            v
          })
          .on_error_map(inf)
          .box_it()
        }
        "from_iter" => {
          let vals = ast.vals();
          // an IntoIterator whose conversion is observable (C13: it happens at subscription, once per subscription)
          let it = CountSrc { items: vals, sh: sh.clone(), c: b };
          observable::from_iter(it).on_error_map(inf).box_it()
        }
        "repeat" => observable::repeat(ast.v.clone(), a as usize).on_error_map(inf).box_it(),
        "empty" => ObservableExt::<Val, Infallible>::on_error_map(observable::empty(), inf).box_it(),
        "never" => observable::never().map(|_: ()| Val::U).on_error_map(inf).box_it(),
        "throw" => observable::throw(ast.v.clone()).map(|_: ()| Val::U).box_it(),
        "create" => {
          let script = ast.script();
          observable::create(move |s: $subscriber| {
            for (t, v) in script.iter() {
              match t {
                'N' => s.clone().next(v.clone()),
                'E' => s.clone().error(v.clone()),
                _ => s.clone().complete(),
              }
            }
          })
          .box_it()
        }
        "defer" => {
          let inner = src(ast.s1);
          observable::defer(move || {
            sh.bump(b);
            inner.clone()
          })
          .box_it()
        }
        "subject" => env.subjects[(a - 1) as usize].clone().box_it(),
        "behavior" => env.behaviors[(a - 1) as usize].clone().box_it(),
        "hotc" => {
          let st = env.hotc[(a - 1) as usize].clone();
          observable::create(move |s: $subscriber| {
            stash_push!($form, st, s);
          })
          .box_it()
        }
        // ------------------------------------------------ single-input operators
        "map" => src(ast.s1)
          .map(move |v| {
            sh.bump(b);
            if a >= 10 {
              Val::B(pred(a - 10, &v))
            } else {
              mapf(a, v)
            }
          })
          .box_it(),
        "map_to" => src(ast.s1).map_to(ast.v.clone()).box_it(),
        "filter" => src(ast.s1).filter(move |v| pred(a, v)).box_it(),
        "filter_map" => src(ast.s1).filter_map(move |v| fmapf(a, v)).box_it(),
        "tap" => src(ast.s1).tap(move |_v| sh.bump(b)).box_it(),
        "on_error_map" => src(ast.s1).on_error_map(move |e| errf(a, e)).box_it(),
        "on_complete" => {
          let inner = src(ast.s1);
          observable::defer(move || {
            let sh = sh.clone();
            inner.clone().on_complete(move || sh.bump(b))
          })
          .box_it()
        }
        "on_error" => {
          let inner = src(ast.s1);
          observable::defer(move || {
            let sh = sh.clone();
            inner.clone().on_error(move |_e| sh.bump(b)).on_error_map(inf)
          })
          .box_it()
        }
        // b = 9: the entry point that starts from `Default::default()` (= I(0) for the harness values)
        "scan" if b == 9 => src(ast.s1).scan(move |acc: Val, v| binf(a, acc, v)).box_it(),
        "scan" => src(ast.s1).scan_initial(ast.v.clone(), move |acc, v| binf(a, acc, v)).box_it(),
        "skip" => src(ast.s1).skip(a as usize).box_it(),
        "skip_while" => src(ast.s1).skip_while(move |v| pred(a, v)).box_it(),
        "skip_last" => src(ast.s1).skip_last(a as usize).box_it(),
        "take_last" => src(ast.s1).take_last(a as usize).box_it(),
        "last" => src(ast.s1).last().box_it(),
        "default_if_empty" => src(ast.s1).default_if_empty(ast.v.clone()).box_it(),
        "distinct" => src(ast.s1).distinct().box_it(),
        "distinct_key" => src(ast.s1).distinct_key(move |v: &Val| keyf(a, v)).box_it(),
        "duc" => src(ast.s1).distinct_until_changed().box_it(),
        "dukc" => src(ast.s1).distinct_until_key_changed(move |v: &Val| keyf(a, v)).box_it(),
        "pairwise" => src(ast.s1).pairwise().map(|(x, y)| pair(x, y)).box_it(),
        "buffer_count" => src(ast.s1).buffer_with_count(if a >= 1_000_000 { usize::MAX } else { a as usize }).map(Val::L).box_it(),
        "collect" if !ast.l.is_empty() => src(ast.s1).collect_into(ast.vals()).map(Val::L).box_it(),
        "collect" => src(ast.s1).collect::<Vec<Val>>().map(Val::L).box_it(),
        "take" => src(ast.s1).take(a as usize).box_it(),
        "take_while" => {
          if b == 1 {
            src(ast.s1).take_while_inclusive(move |v| pred(a, v)).box_it()
          } else {
            src(ast.s1).take_while(move |v| pred(a, v)).box_it()
          }
        }
        "contains" => src(ast.s1).contains(ast.v.clone()).map(Val::B).box_it(),
        "start_with" => src(ast.s1).start_with(ast.vals()).box_it(),
        // derived
        "first" => src(ast.s1).first().box_it(),
        "first_or" => src(ast.s1).first_or(ast.v.clone()).box_it(),
        "last_or" => src(ast.s1).last_or(ast.v.clone()).box_it(),
        "element_at" => src(ast.s1).element_at(a as usize).box_it(),
        "ignore_elements" => src(ast.s1).ignore_elements().box_it(),
        "all" => src(ast.s1).all(move |v| pred(a, &v)).map(Val::B).box_it(),
        "reduce_initial" if b == 9 => src(ast.s1).reduce(move |acc: Val, v| binf(a, acc, v)).box_it(),
        "reduce_initial" => src(ast.s1)
          .reduce_initial(ast.v.clone(), move |acc, v| binf(a, acc, v))
          .box_it(),
        "sum" => src(ast.s1).sum().box_it(),
        "count" => src(ast.s1).count().map(|n: usize| Val::I(n as i64)).box_it(),
        "max" => src(ast.s1).max().box_it(),
        "min" => src(ast.s1).min().box_it(),
        "average" => src(ast.s1).average().box_it(),
        // ------------------------------------------------ two-input operators
        "merge" => src(ast.s1).$merge(src(ast.s2)).box_it(),
        "zip" => src(ast.s1).$zip(src(ast.s2)).map(|(x, y)| pair(x, y)).box_it(),
        "combine_latest" => src(ast.s1)
          .$combine_latest(src(ast.s2), |x, y| (x, y))
          .map(|(x, y)| pair(x, y))
          .box_it(),
        "with_latest_from" => src(ast.s1)
          .$with_latest_from(src(ast.s2))
          .map(|(x, y)| pair(x, y))
          .box_it(),
        "take_until" if env.prog[ast.s2 - 1].op == "publish" => {
          // the notifier is a published observable used as a value (not through fork()): subscribing it must not connect it
          let (a_, b_) = (src(ast.s1), src(env.prog[ast.s2 - 1].s1));
          observable::defer(move || a_.clone().$take_until(b_.clone().publish::<$subject>())).box_it()
        }
        "take_until" => src(ast.s1).$take_until(src(ast.s2)).box_it(),
        "skip_until" => src(ast.s1).$skip_until(src(ast.s2)).box_it(),
        "sample" => src(ast.s1).$sample(src(ast.s2)).box_it(),
        "buffer" => src(ast.s1).buffer(src(ast.s2).map(|_| ())).map(Val::L).box_it(),
        // ------------------------------------------------ higher order
        "flat" if is_groups(&env.prog, ast.s1) => {
          // flattening the groups back
          let g = $gname(env, ast.s1);
          match b {
            1 => observable::defer(move || g.clone().$concat_all()).box_it(),
            2 => observable::defer(move || g.clone().$flatten()).box_it(),
            3 => observable::defer(move || g.clone().$flat_map(|k| k)).box_it(),
            _ => observable::defer(move || g.clone().$merge_all(a as usize)).box_it(),
          }
        }
        "flat" => {
          // one observable VALUE per AST node: an id that occurs twice is the same value (clones of one share() ...)
          let ids = ast.ids();
          let mut made: std::collections::BTreeMap<usize, $bx> = Default::default();
          for i in ids.iter() {
            if !made.contains_key(i) {
              made.insert(*i, $fname(env, *i));
            }
          }
          let inners: Vec<$bx> = ids.iter().map(|i| made[i].clone()).collect();
          let pick = move |v: Val| inners[(w(&v).rem_euclid(inners.len() as i64)) as usize].clone();
          // MergeAllOp is not Clone: wrap the construction in `defer` (which is) so that
          // the pipeline stays a cloneable value; defer only forwards actual_subscribe
          let s1 = src(ast.s1);
          match b {
            1 => observable::defer(move || s1.clone().map(pick.clone()).$concat_all()).box_it(),
            2 => observable::defer(move || s1.clone().map(pick.clone()).$flatten()).box_it(),
            3 => observable::defer(move || s1.clone().$flat_map(pick.clone())).box_it(),
            4 => observable::defer(move || s1.clone().$concat_map(pick.clone())).box_it(),
            _ => observable::defer(move || s1.clone().map(pick.clone()).$merge_all(a as usize)).box_it(),
          }
        }
        "finalize" => {
          // a > 0: the callback also sends item v into hot subject a (a teardown that feeds back into the pipeline)
          let feed = if a > 0 { Some((env.subjects[(a - 1) as usize].clone(), ast.v.clone())) } else { None };
          src(ast.s1)
            .$finalize(move || {
              sh.bump(b);
              // its place among the notifications is an observation
              sh.record(0, 'F', Val::U);
              if let Some((s, v)) = feed.as_ref() {
                s.clone().next(v.clone())
              }
            })
            .box_it()
        }
        "share" => {
          let have = env.shares.lock().unwrap().get(&x).cloned();
          match have {
            Some(b) => b,
            None => {
              let b: $bx = src(ast.s1).$share().box_it();
              env.shares.lock().unwrap().insert(x, b.clone());
              b
            }
          }
        }
        // ------------------------------------------------ scheduler-using operators and sources
        "delay" => {
          if b == 1 {
            // the _at form: an instant `a` units in the future
            src(ast.s1).$delay_at(Instant::now() + dur(a), VSched).box_it()
          } else {
            src(ast.s1).$delay(dur(a), VSched).box_it()
          }
        }
        "observe_on" => src(ast.s1).$observe_on(VSched).box_it(),
        "delay_subscription" => {
          if b == 1 {
            src(ast.s1).delay_subscription_at(Instant::now() + dur(a), VSched).box_it()
          } else {
            src(ast.s1).delay_subscription(dur(a), VSched).box_it()
          }
        }
        "subscribe_on" => src(ast.s1).subscribe_on(VSched).box_it(),
        "debounce" => src(ast.s1).debounce(dur(a), VSched).box_it(),
        "throttle" => {
          let edge = match b {
            1 => ThrottleEdge::leading(),
            2 => ThrottleEdge::tailing(),
            _ => ThrottleEdge::all(),
          };
          if a > 0 {
            let inner = src(ast.s1);
            // throttle_time boxes its selector (not Clone): keep the pipeline cloneable through defer
            observable::defer(move || inner.clone().throttle_time(dur(a), edge, VSched)).box_it()
          } else {
            src(ast.s1).throttle(|v: &Val| dur(w(v).rem_euclid(2) + 1), edge, VSched).box_it()
          }
        }
        "buffer_time" => src(ast.s1).buffer_with_time(dur(a), VSched).map(Val::L).box_it(),
        "buffer_count_time" => src(ast.s1)
          // a count of 1 000 000 in the catalogue stands for "no count limit": usize::MAX
          .buffer_with_count_and_time(if a >= 1_000_000 { usize::MAX } else { a as usize }, dur(b), VSched)
          .map(Val::L)
          .box_it(),
        "interval" => {
          if b >= 0 {
            observable::interval_at(Instant::now() + dur(b), dur(a), VSched)
              .map(|n: usize| Val::I(n as i64))
              .on_error_map(inf)
              .box_it()
          } else {
            observable::interval(dur(a), VSched).map(|n: usize| Val::I(n as i64)).on_error_map(inf).box_it()
          }
        }
        "timer" => {
          let v = ast.v.clone();
          if b == 1 {
            observable::defer(move || observable::timer_at(v.clone(), Instant::now() + dur(a), VSched))
              .on_error_map(inf)
              .box_it()
          } else {
            observable::defer(move || observable::timer(v.clone(), dur(a), VSched)).on_error_map(inf).box_it()
          }
        }
        "from_future" => {
          if b == 1 {
            observable::from_future_result(ScriptFuture(a as usize), VSched).box_it()
          } else {
            observable::from_future(ScriptFutureOk(a as usize), VSched).on_error_map(inf).box_it()
          }
        }
        "from_stream" => {
          if b == 1 {
            observable::from_stream_result(ScriptStream(a as usize), VSched).box_it()
          } else {
            observable::from_stream(ScriptStreamOk(a as usize), VSched).on_error_map(inf).box_it()
          }
        }
        other => panic!("harness: unknown op {other}"),
      }
    }
  };
}

/// iterator that counts how many items were pulled from it (C16)
#[derive(Clone)]
pub struct CountIter {
  items: Vec<Val>,
  pos: usize,
  sh: Arc<Shared>,
  c: i64,
}
/// the collection handed to `from_iter`: converting it into an iterator is counted (counter 8) for the counting source
#[derive(Clone)]
pub struct CountSrc {
  items: Vec<Val>,
  sh: Arc<Shared>,
  c: i64,
}
impl IntoIterator for CountSrc {
  type Item = Val;
  type IntoIter = CountIter;
  fn into_iter(self) -> CountIter {
    if self.c == 7 {
      self.sh.bump(8);
    }
    CountIter { items: self.items, pos: 0, sh: self.sh, c: self.c }
  }
}
impl Iterator for CountIter {
  type Item = Val;
  fn next(&mut self) -> Option<Val> {
    if self.pos < self.items.len() {
      self.pos += 1;
      self.sh.bump(self.c);
      if self.c == 7 {
        // the counting iterator: every pull is an observation, ordered with the notifications
        self.sh.record(0, 'I', Val::I(self.pos as i64));
      }
      Some(self.items[self.pos - 1].clone())
    } else {
      None
    }
  }
}

builder!(
  build_l, groups_l, EnvL, LBox, LGBox, LSubject, local, LSubscriber,
  merge, zip, combine_latest, with_latest_from, take_until, skip_until, sample,
  merge_all, concat_all, flatten, flat_map, concat_map, finalize, share, delay, delay_at, observe_on
);
builder!(
  build_t, groups_t, EnvT, TBox, TGBox, TSubject, threads, TSubscriber,
  merge_threads, zip_threads, combine_latest_threads, with_latest_from_threads,
  take_until_threads, skip_until_threads, sample_threads,
  merge_all_threads, concat_all_threads, flatten_threads, flat_map_threads, concat_map_threads,
  finalize_threads, share_threads, delay_threads, delay_at_threads, observe_on_threads
);
