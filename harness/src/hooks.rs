//! Harness side of the `verif_hooks` feature of the crate.
//! Sequential mode: the replayer is single-threaded, so a `MutArc` found locked
//! can only be held by the calling thread itself: a self-deadlock. It is turned
//! into a panic (caught by the replayer and recorded as a fault) instead of a hang.
use rxrust::verif::{Hooks, LockEvent};
use std::sync::atomic::{AtomicU64, Ordering};

pub static LOCKS_TAKEN: AtomicU64 = AtomicU64::new(0);

pub struct SeqHooks;

impl Hooks for SeqHooks {
  fn lock(&self, ev: LockEvent, _addr: usize) -> bool {
    match ev {
      LockEvent::Before => true,
      LockEvent::Acquired => {
        LOCKS_TAKEN.fetch_add(1, Ordering::Relaxed);
        true
      }
      LockEvent::Blocked => panic!("verif: self-deadlock (MutArc locked by the calling thread)"),
    }
  }
  fn yield_point(&self, _site: &'static str) {}
}

pub fn install_seq_hooks() {
  rxrust::verif::set_hooks(Box::new(SeqHooks));
}
