//! Universal value type flowing through every harness pipeline; mirrors
//! spec/RxVal.tla one-to-one (tags, weight function, function families).
use serde_json::{json, Value as J};
use std::hash::{Hash, Hasher};

#[derive(Clone, Debug)]
pub enum Val {
  I(i64),
  B(bool),
  U,
  P(Box<Val>, Box<Val>),
  L(Vec<Val>),
  E(i64),
  None,
  Some(Box<Val>),
  /// group announced by group_by: (subject id, key)
  G(i64, Box<Val>),
  /// a bare tag: "empty", "multi", "end" (results of the conversions)
  Tag(String),
}

impl Default for Val {
  fn default() -> Self {
    Val::I(0)
  }
}

impl PartialEq for Val {
  fn eq(&self, o: &Val) -> bool {
    use Val::*;
    match (self, o) {
      (I(a), I(b)) => a == b,
      (B(a), B(b)) => a == b,
      (U, U) => true,
      (P(a, b), P(c, d)) => a == c && b == d,
      (L(a), L(b)) => a == b,
      (E(a), E(b)) => a == b,
      (None, None) => true,
      (Some(a), Some(b)) => a == b,
      (G(a, b), G(c, d)) => a == c && b == d,
      (Tag(a), Tag(b)) => a == b,
      _ => false,
    }
  }
}
impl Eq for Val {}

impl Hash for Val {
  fn hash<H: Hasher>(&self, h: &mut H) {
    self.to_json().to_string().hash(h)
  }
}

/// ordering used by min()/max(): by weight (ties compare equal)
impl PartialOrd for Val {
  fn partial_cmp(&self, o: &Val) -> Option<std::cmp::Ordering> {
    w(self).partial_cmp(&w(o))
  }
}

/// sum(): I(W(a)+W(b))
impl std::ops::Add for Val {
  type Output = Val;
  fn add(self, o: Val) -> Val {
    Val::I(w(&self) + w(&o))
  }
}

/// average(): the library computes `sum * (1.0 / count as f64)`; we keep the
/// exact rational as the pair (sum, count)
impl std::ops::Mul<f64> for Val {
  type Output = Val;
  fn mul(self, f: f64) -> Val {
    let count = if f > 0.0 { (1.0 / f).round() as i64 } else { 0 };
    Val::P(Box::new(Val::I(w(&self))), Box::new(Val::I(count)))
  }
}

pub fn w(v: &Val) -> i64 {
  match v {
    Val::I(n) => *n,
    Val::B(b) => *b as i64,
    Val::P(a, b) => w(a) + w(b),
    Val::L(l) => l.iter().map(w).sum(),
    Val::Some(x) => w(x),
    Val::E(n) => *n,
    Val::G(_, k) => w(k),
    _ => 0,
  }
}

pub fn pair(a: Val, b: Val) -> Val {
  Val::P(Box::new(a), Box::new(b))
}

pub fn mapf(c: i64, v: Val) -> Val {
  match c {
    1 => Val::I(w(&v) + 1),
    2 => Val::I(w(&v) * 2),
    3 => Val::I(w(&v).rem_euclid(2)),
    4 => pair(v.clone(), v),
    _ => v,
  }
}

pub fn pred(c: i64, v: &Val) -> bool {
  match c {
    0 => false,
    1 => true,
    2 => w(v).rem_euclid(2) == 0,
    3 => w(v).rem_euclid(2) == 1,
    4 => w(v) < 1,
    5 => w(v) >= 1,
    6 => w(v) < 2,
    _ => true,
  }
}

pub fn keyf(c: i64, v: &Val) -> Val {
  match c {
    0 => Val::I(0),
    1 => v.clone(),
    2 => Val::I(w(v).rem_euclid(2)),
    _ => v.clone(),
  }
}

pub fn fmapf(c: i64, v: Val) -> Option<Val> {
  match c {
    1 => {
      if w(&v).rem_euclid(2) == 0 {
        Some(Val::I(w(&v) + 10))
      } else {
        None
      }
    }
    2 => {
      if w(&v) >= 1 {
        Some(v)
      } else {
        None
      }
    }
    _ => Some(v),
  }
}

pub fn binf(c: i64, acc: Val, v: Val) -> Val {
  match c {
    1 => Val::I(w(&acc) + w(&v)),
    2 => Val::I(w(&acc) + 1),
    3 => pair(acc, v),
    _ => v,
  }
}

pub fn errf(c: i64, e: Val) -> Val {
  match c {
    1 => Val::E(w(&e) + 10),
    _ => e,
  }
}

impl Val {
  pub fn to_json(&self) -> J {
    match self {
      Val::I(n) => json!(["i", n]),
      Val::B(b) => json!(["b", b]),
      Val::U => json!(["u"]),
      Val::P(a, b) => json!(["p", a.to_json(), b.to_json()]),
      Val::L(l) => json!(["l", l.iter().map(|x| x.to_json()).collect::<Vec<_>>()]),
      Val::E(n) => json!(["e", n]),
      Val::None => json!(["none"]),
      Val::Some(x) => json!(["s", x.to_json()]),
      Val::G(s, k) => json!(["g", s, k.to_json()]),
      Val::Tag(t) => json!([t]),
    }
  }

  pub fn from_json(j: &J) -> Val {
    let a = j.as_array().expect("value must be a tagged array");
    let tag = a[0].as_str().expect("tag");
    match tag {
      "i" => Val::I(a[1].as_i64().unwrap()),
      "b" => Val::B(a[1].as_bool().unwrap()),
      "u" => Val::U,
      "p" => pair(Val::from_json(&a[1]), Val::from_json(&a[2])),
      "l" => Val::L(a[1].as_array().unwrap().iter().map(Val::from_json).collect()),
      "e" => Val::E(a[1].as_i64().unwrap()),
      "none" => Val::None,
      "s" => Val::Some(Box::new(Val::from_json(&a[1]))),
      "g" => Val::G(a[1].as_i64().unwrap(), Box::new(Val::from_json(&a[2]))),
      t if a.len() == 1 => Val::Tag(t.to_string()),
      t => panic!("unknown value tag {t}"),
    }
  }
}
