//! Executes stimuli (one public API call each) against real rxRust objects and
//! reports what was observed, in the wire format shared with the TLA+ side.
use crate::build::*;
use crate::probe::*;
use crate::val::*;
use rxrust::prelude::*;
use serde_json::{json, Value as J};
use std::cell::RefCell;
use std::panic::{catch_unwind, AssertUnwindSafe};
use std::rc::Rc;
use std::sync::{Arc, Mutex};

#[derive(Clone, Debug)]
pub struct Stim {
  pub k: String,
  pub a: i64,
  pub b: i64,
  pub t: String,
  pub v: Val,
}

impl Stim {
  pub fn from_json(j: &J) -> Stim {
    Stim {
      k: j["k"].as_str().unwrap().to_string(),
      a: j["a"].as_i64().unwrap_or(0),
      b: j["b"].as_i64().unwrap_or(0),
      t: j["t"].as_str().unwrap_or("").to_string(),
      v: if j["v"].is_array() { Val::from_json(&j["v"]) } else { Val::U },
    }
  }
  pub fn to_json(&self) -> J {
    json!({"k": self.k, "a": self.a, "b": self.b, "t": self.t, "v": self.v.to_json()})
  }
}

#[derive(Clone, Debug, PartialEq)]
pub struct StepObs {
  pub log: Vec<Obs>,
  pub ret: Val,
  pub fault: String,
  pub cnt: Vec<i64>,
  /// tasks the executor still holds
  pub live: i64,
  /// durations requested from the timer function by this stimulus
  pub tm: Vec<i64>,
}

impl StepObs {
  pub fn from_json(j: &J) -> StepObs {
    StepObs {
      log: j["log"]
        .as_array()
        .unwrap()
        .iter()
        .map(|e| Obs {
          p: e["p"].as_i64().unwrap(),
          t: e["t"].as_str().unwrap().chars().next().unwrap(),
          v: Val::from_json(&e["v"]),
          at: e["at"].as_i64().unwrap_or(0),
        })
        .collect(),
      ret: Val::from_json(&j["ret"]),
      fault: j["fault"].as_str().unwrap_or("").to_string(),
      cnt: j["cnt"].as_array().map(|a| a.iter().map(|x| x.as_i64().unwrap()).collect()).unwrap_or_default(),
      live: j["live"].as_i64().unwrap_or(0),
      tm: j["tm"].as_array().map(|a| a.iter().map(|x| x.as_i64().unwrap()).collect()).unwrap_or_default(),
    }
  }
  pub fn to_json(&self) -> J {
    json!({
      "log": self.log.iter().map(|o| json!({"p": o.p, "t": o.t.to_string(), "v": o.v.to_json(), "at": o.at})).collect::<Vec<_>>(),
      "ret": self.ret.to_json(),
      "fault": self.fault,
      "cnt": self.cnt,
      "live": self.live,
      "tm": self.tm,
    })
  }
}

thread_local! {
  static LAST_PANIC: RefCell<String> = RefCell::new(String::new());
  /// panics so far (the scheduler wrapper of the crate catches the panics of task bodies)
  static PANICS: RefCell<u64> = RefCell::new(0);
}

pub fn install_panic_hook() {
  std::panic::set_hook(Box::new(|info| {
    let msg = if let Some(s) = info.payload().downcast_ref::<&str>() {
      s.to_string()
    } else if let Some(s) = info.payload().downcast_ref::<String>() {
      s.clone()
    } else {
      "panic".to_string()
    };
    let loc = info.location().map(|l| format!(" at {}:{}", l.file(), l.line())).unwrap_or_default();
    if std::env::var("VERIF_SHOW_PANICS").is_ok() {
      eprintln!("panic: {msg}{loc}");
    }
    LAST_PANIC.with(|p| *p.borrow_mut() = format!("{msg}{loc}"));
    PANICS.with(|p| *p.borrow_mut() += 1);
  }));
}

pub fn classify_panic(msg: &str) -> String {
  if msg.contains("already borrowed")
    || msg.contains("already mutably borrowed")
    || msg.contains("BorrowMutError")
    || msg.contains("BorrowError")
    || msg.contains("verif: self-deadlock")
  {
    if std::env::var("VERIF_DEBUG_PANIC").is_ok() {
      eprintln!("panic classified as reentry: {msg}");
    }
    "reentry".to_string()
  } else {
    format!("panic:{msg}")
  }
}

/// the subscription a subscribing harness task produces (C19)
pub struct FlagSub {
  sh: Arc<Shared>,
  id: i64,
  closed: Arc<std::sync::atomic::AtomicBool>,
}
impl Subscription for FlagSub {
  fn unsubscribe(self) {
    self.closed.store(true, std::sync::atomic::Ordering::SeqCst);
    self.sh.record(100 + self.id, 'U', Val::U);
  }
  fn is_closed(&self) -> bool {
    self.closed.load(std::sync::atomic::Ordering::SeqCst)
  }
}

pub struct Cfg {
  pub nsubj: usize,
  pub nbeh: usize,
  pub nhotc: usize,
}

pub trait Runner {
  fn exec(&mut self, s: &Stim) -> StepObs;
}

macro_rules! runner {
  ($name:ident, $env:ident, $build:ident, $groups:ident, $form:ident, $subject:ty, $boxsub:ty, $progrc:ident, $groupprobe:ident,
   $bx:ty, $react:ty, $multi:ty) => {
    /// typed outer probe of a group_by pipeline: records the announcement and
    /// attaches a fresh probe to the group from inside the callback
    pub struct $groupprobe {
      id: i64,
      sh: Arc<Shared>,
      reg: Arc<Mutex<GroupReg>>,
    }
    impl Observer<rxrust::ops::group_by::KeyObservable<Val, $subject>, Val> for $groupprobe {
      fn next(&mut self, g: rxrust::ops::group_by::KeyObservable<Val, $subject>) {
        // the key function has just numbered this group
        let sid = self.reg.lock().unwrap().last;
        self.sh.record(self.id, 'N', Val::G(sid, Box::new(g.key.clone())));
        let p: Probe<$react> = Probe::new(&self.sh, None);
        let _ = g.actual_subscribe(p);
      }
      fn error(self, e: Val) {
        self.sh.record(self.id, 'E', e)
      }
      fn complete(self) {
        self.sh.record(self.id, 'C', Val::U)
      }
      fn is_finished(&self) -> bool {
        false
      }
    }

    pub struct $name {
      pub env: $env,
      pub handles: Vec<Option<$boxsub>>,
      pub dead: bool,
      /// pipelines are built once per root and subscribed through clones
      pub built: std::collections::HashMap<usize, $bx>,
      /// published observables: (the connectable until connect() consumes it, a fork of its subject)
      pub published: std::collections::HashMap<usize, (Option<ConnectableObservable<$bx, $subject>>, $subject)>,
      pub multis: std::collections::HashMap<usize, $multi>,
      /// to_future / to_stream results by handle index
      pub futs: std::collections::HashMap<usize, rxrust::ops::future::ObservableFuture<Val, Val>>,
      pub streams: std::collections::HashMap<usize, rxrust::ops::stream::ObservableStream<Val, Val>>,
      pub statuses: Vec<Arc<rxrust::ops::complete_status::CompleteStatus>>,
    }

    impl $name {
      pub fn new(prog: Vec<Ast>, cfg: &Cfg) -> $name {
        crate::vsched::reset();
        let sh = Shared::new();
        crate::vsched::set_stream_log(Some(sh.clone()));
        let env = $env {
          sh,
          prog: $progrc::new(prog),
          subjects: (0..cfg.nsubj).map(|_| <$subject>::default()).collect(),
          behaviors: (0..cfg.nbeh).map(|_| BehaviorSubject::new(Val::I(9))).collect(),
          hotc: (0..cfg.nhotc).map(|_| Default::default()).collect(),
          groups: Default::default(),
          shares: Default::default(),
        };
        $name {
          env,
          handles: vec![],
          dead: false,
          built: Default::default(),
          published: Default::default(),
          multis: Default::default(),
          futs: Default::default(),
          streams: Default::default(),
          statuses: vec![],
        }
      }

      fn built(&mut self, root: usize) -> $bx {
        if !self.built.contains_key(&root) {
          let b = $build(&self.env, root);
          self.built.insert(root, b);
        }
        self.built[&root].clone()
      }

      fn publish_of(&mut self, root: usize) -> &mut (Option<ConnectableObservable<$bx, $subject>>, $subject) {
        if !self.published.contains_key(&root) {
          let s1 = self.env.prog[root - 1].s1;
          let src = self.built(s1);
          let c = src.publish::<$subject>();
          let fork = c.fork();
          self.published.insert(root, (Some(c), fork));
        }
        self.published.get_mut(&root).unwrap()
      }

      fn run(&mut self, s: &Stim) -> Val {
        let sh = self.env.sh.clone();
        match s.k.as_str() {
          "sub" => {
            let root = s.a as usize;
            let h = if is_groups(&self.env.prog, root) {
              let gp = $groupprobe { id: sh.new_probe_id(), sh: sh.clone(), reg: self.env.groups.clone() };
              let u = $groups(&self.env, root).actual_subscribe(gp);
              <$boxsub>::new(u)
            } else if self.env.prog[root - 1].op == "to_future" {
              let _ = sh.new_probe_id();
              let src = self.built(self.env.prog[root - 1].s1);
              self.futs.insert(self.handles.len(), src.to_future());
              <$boxsub>::new(())
            } else if self.env.prog[root - 1].op == "to_stream" {
              let _ = sh.new_probe_id();
              let src = self.built(self.env.prog[root - 1].s1);
              self.streams.insert(self.handles.len(), src.to_stream());
              <$boxsub>::new(())
            } else if self.env.prog[root - 1].op == "status" {
              let src = self.built(self.env.prog[root - 1].s1);
              let (op, status) = src.complete_status();
              self.statuses.push(status);
              let p: Probe<$react> = Probe::new(&sh, None);
              <$boxsub>::new(op.actual_subscribe(p))
            } else if self.env.prog[root - 1].op == "publish" {
              let subj = self.publish_of(root).1.clone();
              let react: Option<$react> = if s.b == 3 {
                let (sj, sh2) = (subj.clone(), sh.clone());
                Some(Box::new(move |_v: &Val| {
                  let p: Probe<$react> = Probe::new(&sh2, None);
                  let _ = sj.clone().actual_subscribe(p);
                }))
              } else {
                None
              };
              let p: Probe<$react> = Probe::new(&sh, react);
              <$boxsub>::new(subj.actual_subscribe(p))
            } else {
              let pipeline = self.built(root);
              let react: Option<$react> = match s.b {
                2 => {
                  // on the first item subscribe the same pipeline again (nested subscription)
                  let (pl, sh2, mut done) = (pipeline.clone(), sh.clone(), false);
                  Some(Box::new(move |_v: &Val| {
                    if !done {
                      done = true;
                      let p: Probe<$react> = Probe::new(&sh2, None);
                      let _ = pl.clone().actual_subscribe(p);
                    }
                  }))
                }
                3 => {
                  let (pl, sh2) = (pipeline.clone(), sh.clone());
                  Some(Box::new(move |_v: &Val| {
                    let p: Probe<$react> = Probe::new(&sh2, None);
                    let _ = pl.clone().actual_subscribe(p);
                  }))
                }
                5 => {
                  // feedback loop: on the first item send one more item into hot subject 1
                  let (mut subj, mut done) = (self.env.subjects[0].clone(), false);
                  Some(Box::new(move |v: &Val| {
                    if !done {
                      done = true;
                      subj.next(Val::I(w(v) + 10));
                    }
                  }))
                }
                6 => {
                  // on the first item send an item into hot subject 2 (e.g. the notifier of the pipeline)
                  let (mut subj, mut done) = (self.env.subjects[1].clone(), false);
                  Some(Box::new(move |v: &Val| {
                    if !done {
                      done = true;
                      subj.next(Val::I(w(v) + 20));
                    }
                  }))
                }
                4 => {
                  // peek() the BehaviorSubject this pipeline starts from, from inside the callback
                  let a = self.env.prog[root - 1].a;
                  let beh = self.env.behaviors[(a - 1) as usize].clone();
                  let sh2 = sh.clone();
                  let pid = sh.nprobe.load(std::sync::atomic::Ordering::SeqCst) as i64 + 1;
                  Some(Box::new(move |_v: &Val| {
                    sh2.record(pid, 'P', Behavior::<Val, Val>::peek(&beh));
                  }))
                }
                _ => None,
              };
              let p: Probe<$react> = Probe::new(&sh, react);
              pipeline.actual_subscribe(p)
            };
            self.handles.push(Some(h));
            Val::U
          }
          "emit" => {
            let subj = self.env.subjects[(s.a - 1) as usize].clone();
            emit_on!(subj, s);
            Val::U
          }
          "emitc" => {
            let subs: Vec<_> = stash_snapshot!($form, self.env.hotc[(s.a - 1) as usize]);
            for sb in subs {
              emit_on!(sb, s);
            }
            Val::U
          }
          "unsub" => {
            if let Some(h) = self.handles[(s.a - 1) as usize].take() {
              if s.b == 1 {
                // the RAII way: a guard from unsubscribe_when_dropped() goes out of scope
                let guard = h.unsubscribe_when_dropped();
                drop(guard);
              } else {
                h.unsubscribe();
              }
            }
            Val::U
          }
          "closed" => match &self.handles[(s.a - 1) as usize] {
            Some(h) => Val::B(h.is_closed()),
            None => Val::B(true),
          },
          "squery" => {
            let subj = &self.env.subjects[(s.a - 1) as usize];
            match s.b {
              1 => Val::I(subj.len() as i64),
              2 => Val::B(subj.is_empty()),
              _ => Val::B(Observer::<Val, Val>::is_finished(subj)),
            }
          }
          "sretain" => {
            self.env.subjects[(s.a - 1) as usize].retain();
            Val::U
          }
          "sunsub" => {
            self.env.subjects[(s.a - 1) as usize].clone().unsubscribe();
            Val::U
          }
          "fpoll" => {
            use futures::Stream;
            use std::future::Future;
            use std::pin::Pin;
            use std::task::{Context, Poll};
            let waker = futures::task::noop_waker();
            let mut cx = Context::from_waker(&waker);
            let idx = (s.a - 1) as usize;
            if let Some(f) = self.futs.get_mut(&idx) {
              match Pin::new(f).poll(&mut cx) {
                Poll::Pending => Val::None,
                Poll::Ready(Ok(Ok(v))) => Val::Some(Box::new(v)),
                Poll::Ready(Ok(Err(e))) => e,
                Poll::Ready(Err(rxrust::ops::future::ObservableError::Empty)) => Val::Tag("empty".into()),
                Poll::Ready(Err(rxrust::ops::future::ObservableError::MultipleValues)) => Val::Tag("multi".into()),
              }
            } else {
              let st = self.streams.get_mut(&idx).expect("fpoll: not a conversion handle");
              match Pin::new(st).poll_next(&mut cx) {
                Poll::Pending => Val::None,
                Poll::Ready(Some(Ok(v))) => Val::Some(Box::new(v)),
                Poll::Ready(Some(Err(e))) => e,
                Poll::Ready(None) => Val::Tag("end".into()),
              }
            }
          }
          "stq" => {
            let st = &self.statuses[(s.a - 1) as usize];
            Val::I(if st.is_completed() { 1 } else if st.error_occur() { 2 } else { 0 })
          }
          "build" => {
            let _ = self.built(s.a as usize);
            Val::U
          }
          "connect" => {
            let c = self.publish_of(s.a as usize).0.take().expect("connect twice");
            self.handles.push(Some(c.connect()));
            Val::U
          }
          "bterm" => {
            let b = self.env.behaviors[(s.a - 1) as usize].clone();
            match s.t.as_str() {
              "E" => b.error(s.v.clone()),
              _ => Observer::<Val, Val>::complete(b),
            }
            Val::U
          }
          "mnew" => {
            let m = <$multi>::default();
            self.multis.insert(self.handles.len(), m.clone());
            self.handles.push(Some(<$boxsub>::new(m)));
            Val::U
          }
          "mappend" => {
            let child = self.handles[(s.b - 1) as usize].take().expect("mappend: child handle consumed");
            self.multis.get_mut(&((s.a - 1) as usize)).expect("mappend: not a composite").append(child);
            Val::U
          }
          "mclosed" => Val::B(self.multis.get(&((s.a - 1) as usize)).expect("mclosed: not a composite").is_closed()),
          "bsunsub" => {
            Subscription::unsubscribe(self.env.behaviors[(s.a - 1) as usize].clone());
            Val::U
          }
          "mretain" => {
            self.multis.get_mut(&((s.a - 1) as usize)).expect("mretain: not a composite").retain();
            Val::U
          }
          "tsched" => {
            use rxrust::scheduler::{NormalReturn, OnceTask, RepeatTask, SubscribeReturn};
            let id = crate::vsched::task_count() as i64 + 1;
            let delay = if s.b >= 0 { Some(crate::vsched::dur(s.b)) } else { None };
            let sched = crate::vsched::VSched;
            let h: $boxsub = match s.a {
              1 => {
                fn once((sh, id): (Arc<Shared>, i64)) -> NormalReturn<()> {
                  sh.record(100 + id, 'R', Val::I(0));
                  NormalReturn::new(())
                }
                <$boxsub>::new(sched.schedule(OnceTask::new(once, (sh.clone(), id)), delay))
              }
              2 => {
                fn rep(a: &mut (Arc<Shared>, i64), seq: usize) -> bool {
                  a.0.record(100 + a.1, 'R', Val::I(seq as i64));
                  seq < 2
                }
                let task = match &s.v {
                  Val::I(first) => RepeatTask::with_first_tick(crate::vsched::dur(*first), crate::vsched::dur(s.b), rep, (sh.clone(), id)),
                  _ => RepeatTask::new(crate::vsched::dur(s.b), rep, (sh.clone(), id)),
                };
                <$boxsub>::new(sched.schedule(task, None))
              }
              _ => {
                fn subscribing((sh, id): (Arc<Shared>, i64)) -> SubscribeReturn<FlagSub> {
                  sh.record(100 + id, 'R', Val::I(0));
                  SubscribeReturn::new(FlagSub { sh, id, closed: Arc::new(std::sync::atomic::AtomicBool::new(false)) })
                }
                <$boxsub>::new(sched.schedule(OnceTask::new(subscribing, (sh.clone(), id)), delay))
              }
            };
            self.handles.push(Some(h));
            Val::U
          }
          "adv" => {
            crate::vsched::advance(s.a);
            sh.now.store(crate::vsched::now(), std::sync::atomic::Ordering::SeqCst);
            Val::U
          }
          "run" => {
            crate::vsched::run_task(s.a as usize);
            Val::U
          }
          "runall" => {
            crate::vsched::run_all();
            Val::U
          }
          "fresolve" => {
            crate::vsched::resolve_future(s.a as usize, s.t.chars().next().unwrap_or('N'), s.v.clone());
            Val::U
          }
          "spush" => {
            crate::vsched::push_stream(s.a as usize, s.t.chars().next().unwrap_or('N'), s.v.clone());
            Val::U
          }
          "bnext" => {
            self.env.behaviors[(s.a - 1) as usize].clone().next(s.v.clone());
            Val::U
          }
          "bpeek" => Behavior::<Val, Val>::peek(&self.env.behaviors[(s.a - 1) as usize]),
          "bnextby" => {
            let c = s.b;
            Behavior::<Val, Val>::next_by(&mut self.env.behaviors[(s.a - 1) as usize].clone(), move |v| mapf(c, v));
            Val::U
          }
          other => panic!("harness: unknown stimulus {other}"),
        }
      }
    }

    impl Runner for $name {
      fn exec(&mut self, s: &Stim) -> StepObs {
        let sh = self.env.sh.clone();
        let _ = sh.take_log();
        let _ = crate::vsched::take_requested();
        let panics0 = PANICS.with(|p| *p.borrow());
        let r = catch_unwind(AssertUnwindSafe(|| self.run(s)));
        let (ret, fault) = match r {
          Ok(v) => {
            if PANICS.with(|p| *p.borrow()) != panics0 {
              // a panic inside a scheduled task: caught by the crate's Remote wrapper, still a fault
              self.dead = true;
              let msg = LAST_PANIC.with(|p| p.borrow().clone());
              (v, classify_panic(&msg))
            } else {
              (v, String::new())
            }
          }
          Err(_) => {
            self.dead = true;
            let msg = LAST_PANIC.with(|p| p.borrow().clone());
            (Val::U, classify_panic(&msg))
          }
        };
        StepObs {
          log: sh.take_log(),
          ret,
          fault,
          cnt: sh.counters(),
          live: crate::vsched::live_tasks(),
          tm: crate::vsched::take_requested(),
        }
      }
    }
  };
}

macro_rules! emit_on {
  ($target:expr, $s:expr) => {
    match $s.t.as_str() {
      "N" => $target.clone().next($s.v.clone()),
      "E" => $target.clone().error($s.v.clone()),
      _ => $target.clone().complete(),
    }
  };
}

macro_rules! stash_snapshot {
  (local, $st:expr) => {
    $st.borrow().iter().cloned().collect()
  };
  (threads, $st:expr) => {
    $st.lock().unwrap().iter().cloned().collect()
  };
}

runner!(RunnerL, EnvL, build_l, groups_l, local, LSubject, BoxSubscription<'static>, Rc, GroupProbeL, LBox, ReactL, MultiSubscription<'static>);
runner!(RunnerT, EnvT, build_t, groups_t, threads, TSubject, BoxSubscriptionThreads, Arc, GroupProbeT, TBox, ReactT, MultiSubscriptionThreads);

/// Run one behaviour; a behaviour ends at its first fault.
pub fn run_behaviour(form: &str, prog: Vec<Ast>, cfg: &Cfg, stims: &[Stim]) -> Vec<StepObs> {
  let mut out = vec![];
  if form == "local" {
    let mut r = RunnerL::new(prog, cfg);
    for s in stims {
      let o = r.exec(s);
      let f = !o.fault.is_empty();
      out.push(o);
      if f {
        break;
      }
    }
    if r.dead {
      std::mem::forget(r);
    }
  } else {
    let mut r = RunnerT::new(prog, cfg);
    for s in stims {
      let o = r.exec(s);
      let f = !o.fault.is_empty();
      out.push(o);
      if f {
        break;
      }
    }
    if r.dead {
      std::mem::forget(r);
    }
  }
  out
}

// ---------------------------------------------------------------------------------------------
// The mutable-reference subject variants (MutRefItemSubject, MutRefErrSubject, MutRefItemErrSubject):
// same Subject API, items / errors handed out as `&mut`; subscribers are plain probes on the subject.
// ---------------------------------------------------------------------------------------------
pub struct MProbe {
  id: i64,
  sh: Arc<Shared>,
  react: Option<Box<dyn FnMut()>>,
}
macro_rules! mprobe_impl {
  ($item:ty, $err:ty, $iv:expr, $ev:expr) => {
    impl<'i, 'e> Observer<$item, $err> for MProbe {
      fn next(&mut self, v: $item) {
        self.sh.record(self.id, 'N', $iv(v));
        if let Some(r) = self.react.as_mut() {
          r()
        }
      }
      fn error(self, e: $err) {
        self.sh.record(self.id, 'E', $ev(e));
      }
      fn complete(self) {
        self.sh.record(self.id, 'C', Val::U);
      }
      fn is_finished(&self) -> bool {
        false
      }
    }
  };
}
mprobe_impl!(&'i mut Val, Val, |v: &mut Val| v.clone(), |e: Val| e);
mprobe_impl!(Val, &'e mut Val, |v: Val| v, |e: &mut Val| e.clone());
mprobe_impl!(&'i mut Val, &'e mut Val, |v: &mut Val| v.clone(), |e: &mut Val| e.clone());

macro_rules! mutref_runner {
  ($name:ident, $subject:ty, $next:expr, $error:expr) => {
    pub struct $name {
      sh: Arc<Shared>,
      subject: $subject,
      handles: Vec<Option<Subscriber<MProbe>>>,
      dead: bool,
    }
    impl $name {
      pub fn new() -> $name {
        crate::vsched::reset();
        $name { sh: Shared::new(), subject: <$subject>::default(), handles: vec![], dead: false }
      }
      fn run(&mut self, s: &Stim) -> Val {
        let sh = self.sh.clone();
        match s.k.as_str() {
          "sub" => {
            let react: Option<Box<dyn FnMut()>> = if s.b == 3 {
              let (subj, sh2) = (self.subject.clone(), sh.clone());
              Some(Box::new(move || {
                let p = MProbe { id: sh2.new_probe_id(), sh: sh2.clone(), react: None };
                let _ = subj.clone().actual_subscribe(p);
              }))
            } else {
              None
            };
            let p = MProbe { id: sh.new_probe_id(), sh: sh.clone(), react };
            self.handles.push(Some(self.subject.clone().actual_subscribe(p)));
            Val::U
          }
          "emit" => {
            let mut v = s.v.clone();
            match s.t.as_str() {
              "N" => $next(&mut self.subject.clone(), &mut v),
              "E" => $error(self.subject.clone(), &mut v),
              _ => self.subject.clone().complete(),
            }
            Val::U
          }
          "unsub" => {
            if let Some(h) = self.handles[(s.a - 1) as usize].take() {
              h.unsubscribe();
            }
            Val::U
          }
          "closed" => match &self.handles[(s.a - 1) as usize] {
            Some(h) => Val::B(h.is_closed()),
            None => Val::B(true),
          },
          "squery" => match s.b {
            1 => Val::I(self.subject.len() as i64),
            2 => Val::B(self.subject.is_empty()),
            _ => Val::B(self.subject.is_closed()),
          },
          "sretain" => {
            self.subject.retain();
            Val::U
          }
          "sunsub" => {
            self.subject.clone().unsubscribe();
            Val::U
          }
          other => panic!("harness: stimulus {other} not supported on a MutRef subject"),
        }
      }
    }
    impl Runner for $name {
      fn exec(&mut self, s: &Stim) -> StepObs {
        let sh = self.sh.clone();
        let _ = sh.take_log();
        let r = catch_unwind(AssertUnwindSafe(|| self.run(s)));
        let (ret, fault) = match r {
          Ok(v) => (v, String::new()),
          Err(_) => {
            self.dead = true;
            (Val::U, classify_panic(&LAST_PANIC.with(|p| p.borrow().clone())))
          }
        };
        StepObs { log: sh.take_log(), ret, fault, cnt: sh.counters(), live: 0, tm: vec![] }
      }
    }
  };
}
mutref_runner!(RunnerMItem, MutRefItemSubject<'static, Val, Val>,
  |s: &mut MutRefItemSubject<'static, Val, Val>, v: &mut Val| s.next(v),
  |s: MutRefItemSubject<'static, Val, Val>, e: &mut Val| s.error(e.clone()));
mutref_runner!(RunnerMErr, MutRefErrSubject<'static, Val, Val>,
  |s: &mut MutRefErrSubject<'static, Val, Val>, v: &mut Val| s.next(v.clone()),
  |s: MutRefErrSubject<'static, Val, Val>, e: &mut Val| s.error(e));
mutref_runner!(RunnerMBoth, MutRefItemErrSubject<'static, Val, Val>,
  |s: &mut MutRefItemErrSubject<'static, Val, Val>, v: &mut Val| s.next(v),
  |s: MutRefItemErrSubject<'static, Val, Val>, e: &mut Val| s.error(e));

/// run a behaviour on one of the MutRef subject variants (kind 1 item, 2 err, 3 both)
pub fn run_mutref(kind: u64, stims: &[Stim]) -> Vec<StepObs> {
  fn go<R: Runner>(mut r: R, stims: &[Stim]) -> Vec<StepObs> {
    let mut out = vec![];
    for s in stims {
      let o = r.exec(s);
      let f = !o.fault.is_empty();
      out.push(o);
      if f {
        std::mem::forget(r);
        return out;
      }
    }
    out
  }
  match kind {
    1 => go(RunnerMItem::new(), stims),
    2 => go(RunnerMErr::new(), stims),
    _ => go(RunnerMBoth::new(), stims),
  }
}
