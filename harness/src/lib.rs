pub mod val;
pub mod probe;
pub mod build;
pub mod exec;
pub mod hooks;
pub mod vsched;
pub mod conc;
