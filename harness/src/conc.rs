//! Real OS threads stepped at the hook points of the crate (`verif_hooks`).
//!
//! Every controlled thread runs a script of API calls against shared thread-safe
//! rxRust objects. It stops (a) before each call, (b) before every `MutArc`
//! acquisition, (c) after a failed `try_lock` (blocked), (d) at the yield points of
//! the crate, (e) inside every probe callback. The controller grants exactly one
//! thread at a time the right to run to its next stop, so an execution is fully
//! determined by the sequence of grants; `explore` enumerates those sequences
//! depth-first up to a preemption bound. Events are appended to one log while the
//! controller's mutex is held: a total order, no clocks.
use crate::build::*;
use crate::exec::{classify_panic, Stim};
use crate::probe::Shared;
use crate::val::*;
use rxrust::prelude::*;
use rxrust::verif::{Hooks, LockEvent};
use serde_json::{json, Value as J};
use std::cell::Cell;
use std::collections::BTreeMap;
use std::panic::{catch_unwind, AssertUnwindSafe};
use std::sync::{Arc, Condvar, Mutex};
use std::time::Duration as StdDuration;

#[derive(Clone, Debug, PartialEq)]
pub enum Status {
  NotStarted,
  Running,
  /// waiting for a grant; `blocked` = the last try_lock failed
  Waiting { blocked: bool },
  /// inside `block_on` (wait_for_end) with its waker registered: runs again only after a wake-up
  Parked,
  /// parked and woken meanwhile: on its way to its next stop
  Waking,
  Finished,
}

pub struct CtlState {
  pub turn: Option<usize>,
  pub status: Vec<Status>,
  pub events: Vec<J>,
}

pub struct Ctl {
  pub m: Mutex<CtlState>,
  pub cv: Condvar,
}

thread_local! {
  static TID: Cell<usize> = Cell::new(0);
  static CTL: std::cell::RefCell<Option<Arc<Ctl>>> = std::cell::RefCell::new(None);
}

fn lock_state(c: &Ctl) -> std::sync::MutexGuard<'_, CtlState> {
  match c.m.lock() {
    Ok(g) => g,
    Err(p) => p.into_inner(),
  }
}

/// stop here until the controller grants this thread the next turn
fn wait_turn(blocked: bool, ev: Option<J>) {
  let t = TID.with(|t| t.get());
  if t == 0 {
    return;
  }
  let ctl = CTL.with(|c| c.borrow().clone()).expect("controlled thread without controller");
  let mut g = lock_state(&ctl);
  if let Some(e) = ev {
    g.events.push(e);
  }
  g.status[t - 1] = Status::Waiting { blocked };
  g.turn = None;
  ctl.cv.notify_all();
  while g.turn != Some(t) {
    g = match ctl.cv.wait(g) {
      Ok(g) => g,
      Err(p) => p.into_inner(),
    };
  }
  g.status[t - 1] = Status::Running;
}

pub fn record(ev: J) {
  let t = TID.with(|t| t.get());
  if t == 0 {
    return;
  }
  if let Some(ctl) = CTL.with(|c| c.borrow().clone()) {
    lock_state(&ctl).events.push(ev);
  }
}

pub struct ConcHooks;
impl Hooks for ConcHooks {
  fn lock(&self, ev: LockEvent, _addr: usize) -> bool {
    let t = TID.with(|t| t.get());
    if std::env::var("VERIF_CONC_TRACE").is_ok() {
      eprintln!("  [t{t}] {ev:?} {_addr:x}");
    }
    if t == 0 {
      return false; // set-up thread: ordinary blocking lock
    }
    match ev {
      LockEvent::Before => {
        if std::env::var("VERIF_CONC_TRACE").is_ok() {
          eprintln!("  [t{t}] before lock {_addr:x}");
        }
        wait_turn(false, None)
      }
      LockEvent::Blocked => wait_turn(true, None),
      LockEvent::Acquired => {}
    }
    true
  }
  fn yield_point(&self, site: &'static str) {
    let t = TID.with(|t| t.get());
    match site {
      // not scheduling points, they tell the controller what the thread does outside the stops:
      // about to return Pending to block_on (which parks the thread) ...
      "status_park" => {
        if t != 0 {
          if let Some(ctl) = CTL.with(|c| c.borrow().clone()) {
            let mut g = lock_state(&ctl);
            g.status[t - 1] = Status::Parked;
            ctl.cv.notify_all();
          }
        }
      }
      // ... a wake-up was issued: a parked waiter is on its way again
      "status_wake" => {
        if let Some(ctl) = CTL.with(|c| c.borrow().clone()) {
          let mut g = lock_state(&ctl);
          for st in g.status.iter_mut() {
            if *st == Status::Parked {
              *st = Status::Waking;
            }
          }
        }
      }
      _ => wait_turn(false, None),
    }
  }
}

/// recording subscriber of the multi-threaded harness: its callback contains a stop,
/// so that two threads inside one callback are observable
pub struct CProbe {
  pub name: String,
}
impl Observer<Val, Val> for CProbe {
  fn next(&mut self, v: Val) {
    self.note("N", v)
  }
  fn error(self, e: Val) {
    self.note("E", e)
  }
  fn complete(self) {
    self.note("C", Val::U)
  }
  fn is_finished(&self) -> bool {
    false
  }
}
impl CProbe {
  fn note(&self, t: &str, v: Val) {
    let th = TID.with(|t| t.get());
    if th == 0 {
      // delivered during the single-threaded set-up
      SETUP_LOG.with(|l| l.borrow_mut().push(json!({"k": "log", "th": 0, "p": self.name, "t": t, "v": v.to_json()})));
      return;
    }
    wait_turn(false, Some(json!({"k": "pin", "th": th, "p": self.name})));
    record(json!({"k": "log", "th": th, "p": self.name, "t": t, "v": v.to_json()}));
    record(json!({"k": "pout", "th": th, "p": self.name}));
  }
}
thread_local! {
  static SETUP_LOG: std::cell::RefCell<Vec<J>> = std::cell::RefCell::new(vec![]);
  /// canonical name of the API call the current thread is executing (names what that call creates)
  static CURRENT_CALL: std::cell::RefCell<String> = std::cell::RefCell::new(String::new());
}

/// subscriber of a stream of groups: records the announcement and attaches a recording subscriber to the group at once
pub struct CGroupProbe {
  pub name: String,
  pub reg: Arc<Mutex<GroupReg>>,
}
impl Observer<TGroup, Val> for CGroupProbe {
  fn next(&mut self, g: TGroup) {
    let sid = self.reg.lock().unwrap().last;
    CProbe { name: self.name.clone() }.note("N", Val::G(sid, Box::new(g.key.clone())));
    // the group's subscriber is named after the call that made the group appear
    let name = CURRENT_CALL.with(|c| c.borrow().clone());
    let _ = g.actual_subscribe(CProbe { name });
  }
  fn error(self, e: Val) {
    CProbe { name: self.name.clone() }.note("E", e)
  }
  fn complete(self) {
    CProbe { name: self.name.clone() }.note("C", Val::U)
  }
  fn is_finished(&self) -> bool {
    false
  }
}

/// the shared objects of one run
pub struct World {
  pub env: EnvT,
  pub built: Mutex<BTreeMap<usize, TBox>>,
  pub handles: Mutex<Vec<Option<BoxSubscriptionThreads>>>,
  pub statuses: Mutex<Vec<Arc<rxrust::ops::complete_status::CompleteStatus>>>,
  /// published observables: (the connectable until connect() consumes it, a fork of its subject)
  pub published: Mutex<BTreeMap<usize, (Option<ConnectableObservable<TBox, TSubject>>, TSubject)>>,
  /// who created handle h (same key as the probe / task it belongs to)
  pub hnames: Mutex<Vec<String>>,
  pub off: i64,
}

// EnvT holds Arc / thread-safe subjects only
unsafe impl Sync for World {}

impl World {
  fn built(&self, root: usize) -> TBox {
    let mut b = self.built.lock().unwrap();
    if !b.contains_key(&root) {
      let p = build_t(&self.env, root);
      b.insert(root, p);
    }
    b[&root].clone()
  }

  fn publish_fork(&self, root: usize) -> TSubject {
    let src = self.built(self.env.prog[root - 1].s1);
    let mut p = self.published.lock().unwrap();
    p.entry(root)
      .or_insert_with(|| {
        let c = src.publish::<TSubject>();
        let fork = c.fork();
        (Some(c), fork)
      })
      .1
      .clone()
  }

  /// one API call; `name` = canonical name of a probe this call creates
  pub fn call(&self, s: &Stim, name: String) -> Val {
    match s.k.as_str() {
      "connect" => {
        let root = s.a as usize;
        let _ = self.publish_fork(root);
        let c = self.published.lock().unwrap().get_mut(&root).unwrap().0.take().expect("connect twice");
        let h = BoxSubscriptionThreads::new(c.connect());
        self.handles.lock().unwrap().push(Some(h));
        self.hnames.lock().unwrap().push(name);
        Val::U
      }
      "sub" => {
        let root = s.a as usize; // the scripts of cases.json use the local AST indices
        let h = if is_groups(&self.env.prog, root) {
          BoxSubscriptionThreads::new(groups_t(&self.env, root).actual_subscribe(CGroupProbe { name: name.clone(), reg: self.env.groups.clone() }))
        } else if self.env.prog[root - 1].op == "publish" {
          BoxSubscriptionThreads::new(self.publish_fork(root).actual_subscribe(CProbe { name: name.clone() }))
        } else if self.env.prog[root - 1].op == "status" {
          let src = self.built(self.env.prog[root - 1].s1);
          let (op, status) = src.complete_status();
          self.statuses.lock().unwrap().push(status);
          BoxSubscriptionThreads::new(op.actual_subscribe(CProbe { name: name.clone() }))
        } else {
          self.built(root).actual_subscribe(CProbe { name: name.clone() })
        };
        self.handles.lock().unwrap().push(Some(h));
        self.hnames.lock().unwrap().push(name);
        Val::U
      }
      // ---- tasks handed to the scheduler directly; the pools of VSched are thread-local, so the
      // ---- thread that schedules a task is the one that polls it
      "tsched" => {
        use rxrust::scheduler::{NormalReturn, OnceTask, RepeatTask, SubscribeReturn};
        let delay = if s.b >= 0 { Some(crate::vsched::dur(s.b)) } else { None };
        let sched = crate::vsched::VSched;
        let h = match s.a {
          1 => {
            fn once(name: String) -> NormalReturn<()> {
              record(json!({"k": "log", "th": TID.with(|t| t.get()), "p": name, "t": "R", "v": Val::I(0).to_json()}));
              NormalReturn::new(())
            }
            BoxSubscriptionThreads::new(sched.schedule(OnceTask::new(once, name.clone()), delay))
          }
          2 => {
            fn rep(name: &mut String, seq: usize) -> bool {
              record(json!({"k": "log", "th": TID.with(|t| t.get()), "p": name.clone(), "t": "R", "v": Val::I(seq as i64).to_json()}));
              seq < 2
            }
            BoxSubscriptionThreads::new(sched.schedule(RepeatTask::new(crate::vsched::dur(s.b), rep, name.clone()), None))
          }
          _ => {
            fn subscribing(name: String) -> SubscribeReturn<CFlagSub> {
              record(json!({"k": "log", "th": TID.with(|t| t.get()), "p": name.clone(), "t": "R", "v": Val::I(0).to_json()}));
              SubscribeReturn::new(CFlagSub { name, closed: Arc::new(std::sync::atomic::AtomicBool::new(false)) })
            }
            BoxSubscriptionThreads::new(sched.schedule(OnceTask::new(subscribing, name.clone()), delay))
          }
        };
        self.handles.lock().unwrap().push(Some(h));
        self.hnames.lock().unwrap().push(name);
        Val::U
      }
      "adv" => {
        crate::vsched::advance(s.a);
        Val::U
      }
      "run" => {
        crate::vsched::run_task(s.a as usize);
        Val::U
      }
      "runall" => {
        crate::vsched::run_all();
        Val::U
      }
      "emit" => {
        let subj = self.env.subjects[(s.a - 1) as usize].clone();
        match s.t.as_str() {
          "N" => subj.clone().next(s.v.clone()),
          "E" => subj.error(s.v.clone()),
          _ => subj.complete(),
        }
        Val::U
      }
      "unsub" => {
        let h = self.handles.lock().unwrap().get_mut((s.a - 1) as usize).and_then(|x| x.take());
        if let Some(h) = h {
          h.unsubscribe();
        }
        Val::U
      }
      "closed" => {
        // is_closed() runs without the harness lock held
        let h = self.handles.lock().unwrap().get_mut((s.a - 1) as usize).and_then(|x| x.take());
        let r = match &h {
          Some(h) => Val::B(h.is_closed()),
          None => Val::B(true),
        };
        if let Some(h) = h {
          self.handles.lock().unwrap()[(s.a - 1) as usize] = Some(h);
        }
        r
      }
      "sunsub" => {
        self.env.subjects[(s.a - 1) as usize].clone().unsubscribe();
        Val::U
      }
      "sretain" => {
        self.env.subjects[(s.a - 1) as usize].clone().retain();
        Val::U
      }
      "squery" => {
        let subj = &self.env.subjects[(s.a - 1) as usize];
        match s.b {
          1 => Val::I(subj.len() as i64),
          2 => Val::B(subj.is_empty()),
          _ => Val::B(Observer::<Val, Val>::is_finished(subj)),
        }
      }
      "bnext" => {
        self.env.behaviors[(s.a - 1) as usize].clone().next(s.v.clone());
        Val::U
      }
      "bpeek" => Behavior::<Val, Val>::peek(&self.env.behaviors[(s.a - 1) as usize]),
      "stq" => {
        let st = self.statuses.lock().unwrap()[(s.a - 1) as usize].clone();
        Val::I(if st.is_completed() { 1 } else if st.error_occur() { 2 } else { 0 })
      }
      "stwait" => {
        let st = self.statuses.lock().unwrap()[(s.a - 1) as usize].clone();
        rxrust::ops::complete_status::CompleteStatus::wait_for_end(st);
        Val::U
      }
      other => panic!("harness: stimulus {other} not supported by the thread controller"),
    }
  }
}

/// the subscription a subscribing harness task produces
pub struct CFlagSub {
  name: String,
  closed: Arc<std::sync::atomic::AtomicBool>,
}
impl Subscription for CFlagSub {
  fn unsubscribe(self) {
    self.closed.store(true, std::sync::atomic::Ordering::SeqCst);
    record(json!({"k": "log", "th": TID.with(|t| t.get()), "p": self.name, "t": "U", "v": Val::U.to_json()}));
  }
  fn is_closed(&self) -> bool {
    self.closed.load(std::sync::atomic::Ordering::SeqCst)
  }
}

pub struct CaseSpec {
  pub prog: Vec<Ast>,
  pub off: i64,
  pub nsubj: usize,
  pub nbeh: usize,
  pub nhotc: usize,
  pub pre: Vec<Stim>,
  /// calls made on one thread after all the scripted threads have finished (e.g. run the executor to idle)
  pub post: Vec<Stim>,
  pub threads: Vec<Vec<Stim>>,
}

pub struct RunResult {
  /// per decision: (threads that could be granted, the one that was)
  pub decisions: Vec<(Vec<usize>, usize)>,
  pub events: Vec<J>,
  pub rets: Vec<Vec<J>>,
  pub stuck: bool,
  pub hang: bool,
  pub fault: String,
  pub cnt: Vec<i64>,
}

/// Execute the case once. `prefix` fixes the first grants; afterwards the default
/// policy applies: keep running the same thread while it can run, else the lowest id.
pub fn run_once(case: &CaseSpec, prefix: &[usize]) -> RunResult {
  let nt = case.threads.len();
  let sh = Shared::new();
  let env = EnvT {
    sh: sh.clone(),
    prog: Arc::new(case.prog.clone()),
    subjects: (0..case.nsubj).map(|_| TSubject::default()).collect(),
    behaviors: (0..case.nbeh).map(|_| BehaviorSubject::new(Val::I(9))).collect(),
    hotc: (0..case.nhotc).map(|_| Default::default()).collect(),
    groups: Default::default(),
    shares: Default::default(),
  };
  let world = Arc::new(World {
    env,
    built: Mutex::new(BTreeMap::new()),
    handles: Mutex::new(vec![]),
    statuses: Mutex::new(vec![]),
    published: Mutex::new(BTreeMap::new()),
    hnames: Mutex::new(vec![]),
    off: case.off,
  });
  crate::vsched::reset();
  // single-threaded set-up on this (uncontrolled) thread
  SETUP_LOG.with(|l| l.borrow_mut().clear());
  let mut nsetup = 0;
  for s in &case.pre {
    if s.k == "sub" {
      nsetup += 1;
    }
    world.call(s, format!("s{nsetup}"));
  }
  let ctl = Arc::new(Ctl {
    m: Mutex::new(CtlState { turn: None, status: vec![Status::NotStarted; nt], events: SETUP_LOG.with(|l| l.borrow().clone()) }),
    cv: Condvar::new(),
  });
  let rets: Arc<Mutex<Vec<Vec<J>>>> = Arc::new(Mutex::new(vec![vec![]; nt]));
  let faults: Arc<Mutex<Vec<String>>> = Arc::new(Mutex::new(vec![]));
  let mut joins = vec![];
  for t in 1..=nt {
    let (ctl2, world2, rets2, faults2) = (ctl.clone(), world.clone(), rets.clone(), faults.clone());
    let script = case.threads[t - 1].clone();
    joins.push(std::thread::spawn(move || {
      TID.with(|x| x.set(t));
      CTL.with(|c| *c.borrow_mut() = Some(ctl2.clone()));
      for (i, s) in script.iter().enumerate() {
        wait_turn(false, None);
        record(json!({"k": "call", "th": t, "i": i + 1, "s": s.to_json()}));
        let hname = world2.hnames.lock().unwrap().get((s.a.max(1) - 1) as usize).cloned();
        let gone = if s.k == "unsub" { hname.clone() } else { None };
        CURRENT_CALL.with(|c| *c.borrow_mut() = format!("t{t}c{}", i + 1));
        let r = catch_unwind(AssertUnwindSafe(|| world2.call(s, format!("t{t}c{}", i + 1))));
        match r {
          Ok(v) => {
            // is_closed() answered true: from now on nothing may be delivered through that subscription either
            let gone = if s.k == "closed" && v == Val::B(true) { hname.clone() } else { gone };
            record(json!({"k": "ret", "th": t, "i": i + 1, "v": v.to_json(), "gone": gone}));
            rets2.lock().unwrap()[t - 1].push(v.to_json());
          }
          Err(e) => {
            let msg = e.downcast_ref::<String>().cloned().or(e.downcast_ref::<&str>().map(|s| s.to_string())).unwrap_or_default();
            record(json!({"k": "panic", "th": t, "i": i + 1, "msg": msg}));
            faults2.lock().unwrap().push(classify_panic(&msg));
            break;
          }
        }
      }
      let mut g = lock_state(&ctl2);
      g.status[t - 1] = Status::Finished;
      g.turn = None;
      ctl2.cv.notify_all();
    }));
  }
  // wait until every thread has reached its first stop
  {
    let mut g = lock_state(&ctl);
    while g.status.iter().any(|s| *s == Status::NotStarted) {
      g = ctl.cv.wait(g).unwrap();
    }
  }
  let mut decisions = vec![];
  let mut last = 0usize;
  // a blocked thread is worth another try only after somebody else has run
  let mut retry = vec![true; nt];
  let (mut stuck, mut hang) = (false, false);
  loop {
    // a thread that runs outside the stops (just granted, or woken from its park) reaches its next stop, parks or finishes
    {
      let mut g = lock_state(&ctl);
      let t0 = std::time::Instant::now();
      while g.status.iter().any(|s| *s == Status::Running || *s == Status::Waking) && t0.elapsed() < StdDuration::from_secs(10) {
        let (g2, _) = ctl.cv.wait_timeout(g, StdDuration::from_millis(200)).unwrap();
        g = g2;
      }
      if g.status.iter().any(|s| *s == Status::Running || *s == Status::Waking) {
        hang = true; // a call that neither returns nor reaches a stop
        break;
      }
    }
    let enabled: Vec<usize> = {
      let g = lock_state(&ctl);
      (1..=nt)
        .filter(|&t| match &g.status[t - 1] {
          Status::Waiting { blocked } => !*blocked || retry[t - 1],
          _ => false,
        })
        .collect()
    };
    let all_done = lock_state(&ctl).status.iter().all(|s| *s == Status::Finished);
    if all_done {
      break;
    }
    if enabled.is_empty() {
      // nobody waits for a grant
      let parked = lock_state(&ctl).status.iter().any(|s| *s == Status::Parked);
      if parked {
        hang = true; // parked with nobody left to wake it: a lost wake-up
      } else {
        stuck = true; // every unfinished thread waits for a lock: deadlock
      }
      break;
    }
    let i = decisions.len();
    let choice = if i < prefix.len() && enabled.contains(&prefix[i]) {
      prefix[i]
    } else if enabled.contains(&last) {
      last
    } else {
      enabled[0]
    };
    decisions.push((enabled.clone(), choice));
    // grant
    let mut g = lock_state(&ctl);
    g.status[choice - 1] = Status::Running;
    g.turn = Some(choice);
    ctl.cv.notify_all();
    let t0 = std::time::Instant::now();
    while (g.status[choice - 1] == Status::Running || g.status.iter().any(|s| *s == Status::Waking)) && t0.elapsed() < StdDuration::from_secs(10) {
      let (g2, _) = ctl.cv.wait_timeout(g, StdDuration::from_millis(200)).unwrap();
      g = g2;
    }
    let now_blocked = matches!(g.status[choice - 1], Status::Waiting { blocked: true });
    drop(g);
    // a failed try_lock changes nothing for the others; real progress may have released what they wait for
    if !now_blocked {
      for t in 1..=nt {
        if t != choice {
          retry[t - 1] = true;
        }
      }
    }
    retry[choice - 1] = !now_blocked;
    last = choice;
  }
  if !stuck && !hang {
    for j in joins {
      let _ = j.join();
    }
  } // else: the threads stay parked for ever (leaked)
  if !stuck && !hang && !case.post.is_empty() {
    // single-threaded epilogue on this (uncontrolled) thread
    SETUP_LOG.with(|l| l.borrow_mut().clear());
    for (i, s) in case.post.iter().enumerate() {
      let w = world.clone();
      let name = format!("e{}", i + 1);
      if let Err(e) = catch_unwind(AssertUnwindSafe(|| w.call(s, name))) {
        let msg = e.downcast_ref::<String>().cloned().or(e.downcast_ref::<&str>().map(|s| s.to_string())).unwrap_or_default();
        faults.lock().unwrap().push(classify_panic(&msg));
        break;
      }
    }
    let late = SETUP_LOG.with(|l| l.borrow().clone());
    lock_state(&ctl).events.extend(late);
  }
  let events = lock_state(&ctl).events.clone();
  let fault = faults.lock().unwrap().first().cloned().unwrap_or_default();
  let r = rets.lock().unwrap().clone();
  RunResult { decisions, events, rets: r, stuck, hang, fault, cnt: sh.counters() }
}

/// canonical outcome of a run: what the subscribers saw (per probe), what the calls returned, how it ended
pub fn outcome(r: &RunResult) -> J {
  let mut probes: BTreeMap<String, Vec<J>> = BTreeMap::new();
  let mut inside: BTreeMap<String, i64> = BTreeMap::new();
  let mut overlap = false;
  // subscribers whose subscription's unsubscribe() has returned, and whether one of them was called afterwards
  let mut gone: Vec<String> = vec![];
  let mut late = false;
  for e in &r.events {
    match e["k"].as_str().unwrap_or("") {
      "ret" => {
        if let Some(p) = e["gone"].as_str() {
          gone.push(p.to_string());
        }
      }
      "log" => {
        let p = e["p"].as_str().unwrap().to_string();
        if gone.contains(&p) {
          late = true;
        }
        probes.entry(p).or_default().push(json!([e["t"], e["v"]]))
      }
      "pin" => {
        let c = inside.entry(e["p"].as_str().unwrap().to_string()).or_insert(0);
        *c += 1;
        if *c > 1 {
          overlap = true;
        }
      }
      "pout" => {
        *inside.entry(e["p"].as_str().unwrap().to_string()).or_insert(0) -= 1;
      }
      _ => {}
    }
  }
  json!({"probes": probes, "rets": r.rets, "stuck": r.stuck || r.hang, "overlap": overlap, "fault": r.fault, "cnt": r.cnt, "late": late})
}

fn preemptions(decs: &[(Vec<usize>, usize)]) -> usize {
  let mut n = 0;
  for i in 1..decs.len() {
    let prev = decs[i - 1].1;
    if decs[i].1 != prev && decs[i].0.contains(&prev) {
      n += 1;
    }
  }
  n
}

/// depth-first enumeration of the grant sequences up to `bound` preemptions, at most `max_runs` runs
pub fn explore(case: &CaseSpec, bound: usize, max_runs: usize, mut on_run: impl FnMut(&RunResult)) -> (usize, bool) {
  let mut stack: Vec<Vec<usize>> = vec![vec![]];
  let mut runs = 0;
  while let Some(prefix) = stack.pop() {
    if runs >= max_runs {
      return (runs, false);
    }
    let t0 = std::time::Instant::now();
    let r = run_once(case, &prefix);
    runs += 1;
    if std::env::var("VERIF_CONC_DEBUG").is_ok() && t0.elapsed().as_millis() > 20 {
      eprintln!("slow run #{runs}: {} ms, {} decisions, stack {}, prefix {:?}", t0.elapsed().as_millis(), r.decisions.len(), stack.len(), prefix);
    }
    on_run(&r);
    for i in (prefix.len()..r.decisions.len()).rev() {
      for &alt in &r.decisions[i].0 {
        if alt == r.decisions[i].1 {
          continue;
        }
        let mut p: Vec<(Vec<usize>, usize)> = r.decisions[..i].to_vec();
        p.push((r.decisions[i].0.clone(), alt));
        if preemptions(&p) <= bound {
          stack.push(p.iter().map(|d| d.1).collect());
        }
      }
    }
  }
  (runs, true)
}
